#!/bin/sh
# dev helper: run the given checks (quick tier) and summarise
for c in "$@"; do
  /verif/check $c --tier ${TIER:-quick} > /tmp/check_$c.log 2>&1
  echo "$c exit=$? $(tail -1 /tmp/check_$c.log)"
done
