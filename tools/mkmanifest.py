#!/usr/bin/env python3
# Regenerates /verif/MANIFEST.json from checks.json + tools/manifest_meta.json.
import json, os
V = '/verif'
cfg = json.load(open(f'{V}/checks.json'))
meta = json.load(open(f'{V}/tools/manifest_meta.json'))
base = json.load(open('/root/.vp/BASELINE.json'))
checks = []
for pid in sorted(cfg):
    m = meta['checks'].get(pid, {})
    checks.append({
        "property_id": pid,
        "quick_cmd": f"./check {pid} --tier quick",
        "thorough_cmd": f"./check {pid} --tier thorough",
        "evidence_file": f"/verif/evidence/{pid}.json",
        "replay_cmd_template": f"./check {pid} --replay {{path}}",
        "engine": "gosym",
        "level_claimed": {"category": "model_checking", "text": m.get("text", ""), "design_ref": cfg[pid].get("design_ref", "")},
        "level_note": m.get("note", "bounded: " + cfg[pid].get("bounds", "") + " Outside: " + cfg[pid].get("outside", "")),
        "technique": m.get("technique", "bounded symbolic execution of the real go/ssa (gosym) with SMT (z3) deciding every branch and assertion; counterexamples replayed natively"),
    })
na = [{"property_id": k, "reason": v} for k, v in sorted(meta['not_applicable'].items()) if k not in cfg]
man = {
    "version": 1,
    "setup_cmd": "cd /verif && ./setup.sh",
    "hooks": {"guard": "verif", "enable": "none needed: harnesses and Go-level stubs enter only through go/packages and `go test -overlay` overlays; /repo is changed only by fix: commits",
              "baseline_off_cmd": base["cmd"], "source_commits": [], "add_only": True},
    "engines": [{"name": "gosym", "path": "/verif/gosym", "serves_properties": sorted(cfg),
                 "kind_free_text": "bounded symbolic execution of go/ssa (vendored+modified x/tools v0.29.0 ssa/interp: symbolic scalars, re-execution DFS, one z3 -in session per worker) with SMT-LIB2 queries; models replayed natively via go test -overlay"}],
    "checks": checks,
    "notes": "See DESIGN.md. Exit 0 = held within the stated bounds; exit 1 + VIOLATION line = solver model reproduced natively; exit 2 = inconclusive (never on the unchanged tree for registered bounds).",
    "not_applicable": na,
}
json.dump(man, open(f'{V}/MANIFEST.json', 'w'), indent=1)
print("checks:", len(checks), "not_applicable:", len(na))
