#!/bin/sh
# dev helper: runs every configured check in the thorough tier, one line each
cp /verif/bin/gosym /tmp/gosym.thorough
for c in ${CHECKS:-$(python3 -c "import json;print(' '.join(sorted(json.load(open('/verif/checks.json')))))")}; do
  s=$(date +%s)
  /tmp/gosym.thorough check $c --tier thorough > /tmp/thorough_$c.log 2>&1
  echo "$c exit=$? $(( $(date +%s) - s ))s $(tail -1 /tmp/thorough_$c.log)"
done
