#!/bin/sh
# usage: regress_one.sh <seeded id>   runs the checks named in seeded/<id>/meta.json against the change
# in its own scratch worktree; prints one line "<id> <check>=<exit> ..."
id=$1
d=/verif/seeded/$id
[ -f $d/meta.json ] || exit 0
checks=$(python3 -c "
import json,sys,re
m=json.load(open('$d/meta.json'))
print(' '.join(re.findall(r'\bC\d\d\b', m['ran'].split('patch.diff')[-1])))")
wt=/tmp/repo-reg-$id
git -C /repo worktree add -q --detach $wt HEAD 2>/dev/null || { echo "$id worktree-failed"; exit 0; }
p=$d/patch.diff; [ -f $d/patch_rebased.diff ] && p=$d/patch_rebased.diff   # re-based after a later fix: commit touched the same lines
git -C $wt apply $p 2>/dev/null || { echo "$id patch-does-not-apply"; git -C /repo worktree remove --force $wt; exit 0; }
out="$id"
for c in $checks; do
  VERIF_REPO=$wt VERIF_WORKERS=${VERIF_WORKERS:-4} /verif/bin/gosym check $c --tier quick > /tmp/reg_${id}_$c.log 2>&1
  out="$out $c=$?"
done
echo "$out"
git -C /repo worktree remove --force $wt
