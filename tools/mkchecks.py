#!/usr/bin/env python3
# Single source of truth for /verif/checks.json (what each property check runs)
# and the per-check texts of MANIFEST.json.  Run: python3 tools/mkchecks.py
import json

V = '/verif'
SCHED = 'resource/plugins/cpumem/schedule'
CPUMEM = 'resource/plugins/cpumem'

def P(h, *args):
    return [f"{h}@{a}" for a in args]

common_stubs = "core/log, litter, metrics, sentry: empty bodies; cockroachdb/errors: message+cause model (zzverif.Err); sort.Slice/SliceStable: native swapper around the real pdqsort_func/stable_func SSA; container/heap: real SSA"
plugin_stubs = common_stubs + "; encoding/json: opaque deep-copy token (number fidelity trusted); mapstructure.Decode: structural conversion by tag following v1.5.0 rules; RawParams.Float64/Int64/Int: return the stored number (Sprintf+Parse round trip trusted); meta.KV: in-harness map model (GetMulti/Put/Delete)"

strat_assume = [
    "total passed to the strategy equals the saturating sum of the offered capacities (documented meaning; computed by the harness)",
    "node names are distinct concrete strings; capacities in [1, MaxInt], existing counts in [0, 2^31], node limit in [0, 2^31]",
    "usage and rate are grid floats m*2^-10 with 0<=m<=2^20 (exact IEEE arithmetic on this domain, exactness obligation solver-checked per path)",
    common_stubs,
]
strat_q = ["VerifAuto3", "VerifGlobal3", "VerifDrained3", "VerifEach3", "VerifFill3"]
strat_t = ["VerifAuto3n5", "VerifAuto4", "VerifGlobal3n5", "VerifGlobal4", "VerifDrained5", "VerifEach5", "VerifFill4"]
strat_bounds = ("quick: n<=3 candidate nodes; AUTO/GLOBAL need<=3 (placement-loop bound) or any need above the offered total, DRAINED/EACH need in [1,MaxInt], "
                "FILL need in [1,2^32]; capacities [1,MaxInt], counts/limit [0,2^31]. thorough: n<=4 (AUTO/GLOBAL need<=4; n=3 need<=5), DRAINED/EACH n=5, FILL n=4. "
                "Loops are unrolled by forking until the solver proves the next iteration infeasible; a path exceeding the step budget is reported, never counted.")
strat_out = "n>5 nodes; AUTO/GLOBAL need>5 within the offered total; usage/rate off the 2^-10 grid or >=2^10, NaN/Inf/negative; FILL levels above 2^32; names that are not distinct"

def strat(title, ref):
    return {"title": title, "design_ref": ref, "runs": [{"dir": "strategy", "float": "grid", "quick": strat_q, "thorough": strat_t, "samples": 3}],
            "bounds": strat_bounds, "outside": strat_out, "assumptions": strat_assume}

node_assume = [
    "node state: arbitrary per-core capacity pieces in [0,mp] and usage <= capacity, memory capacity/usage in [0,2^40], optional 2-node NUMA split with NUMA memory; accepted by the plugin's own NodeResourceInfo.Validate, which is executed symbolically (V0)",
    "V1 (feasibility properties): V0 and memory usage <= capacity, sum of NUMA memory capacity <= memory capacity, sum of NUMA usage <= memory usage",
    "CPU request is concrete per harness instance (stated grid of requests), memory request symbolic in [0,2^40], share base and max-share concrete per instance",
    "map iteration is deterministic in the interpreter (sorted keys); in the thorough tier the two map ranges of schedule.GetCPUPlans (cpu->NUMA map, per-NUMA cpu maps) are additionally explored in EVERY order (symbolic permutation, one path per order) on the 2-NUMA-node shapes",
]
sched_bounds_q = "quick: 2-3 cores (pieces <= 2*share base per core), NUMA none or 1|1, requests {0.25,0.3,0.5,1.0,1.2,...} cores as listed in the harness arguments, share base 100 (C06: also 1,3,10), max-share -1/1/2, instance count <= 3"
sched_bounds_t = "thorough: up to 4 cores, NUMA 1|1, 2|1, 2|2, more requests incl. 2.0 and fractional with max-share, count <= 2-3 on NUMA"
sched_out = "more than 4 cores; pieces > 2*share base per core; memory >= 2^40; CPU requests outside the listed grid (the request->pieces conversion for every centi-core request is covered by C05's IEEE harness); NUMA layouts other than a split into two nodes; Go's random map iteration orders"

cfg = {}
cfg["C01"] = strat("Deploy plans respect the requested count and each node's capacity", "DESIGN.md §4 C01")
cfg["C02"] = strat("A deployment is refused only when no plan under the strategy's rule exists", "DESIGN.md §4 C02")
cfg["C03"] = strat("Strategies place instances according to their documented balancing rule", "DESIGN.md §4 C03")

cfg["C04"] = {
    "title": "Allocations never overcommit a node's CPU cores or memory", "design_ref": "DESIGN.md §4 C04",
    "runs": [
        {"dir": SCHED, "quick": P("VerifPlans", "c=2,numa=0,r=1000", "c=2,numa=0,r=500", "c=2,numa=0,r=1200", "c=2,numa=1,r=1000", "c=3,numa=0,r=1000", "c=2,numa=0,r=300,ms=1"),
         "thorough": P("VerifPlans", "c=2,numa=0,r=1000", "c=2,numa=0,r=500", "c=2,numa=0,r=1200", "c=2,numa=0,r=300,ms=1", "c=2,numa=0,r=250,ms=2",
                       "c=2,numa=1,r=1000", "c=2,numa=1,r=500", "c=2,numa=1,r=1200", "c=3,numa=0,r=1000", "c=3,numa=0,r=500,mp=100", "c=3,numa=1,r=1000,mp=100",
                       "c=3,numa=0,r=1200", "c=3,numa=0,r=2000", "c=4,numa=0,r=1000,mp=100", "c=4,numa=1,r=2000,mp=100", "c=2,numa=0,r=1500,sb=10,mp=30"), "samples": 2},
        {"dir": CPUMEM, "quick": P("VerifAlloc", "c=2,numa=0,b=1,r=1000", "c=2,numa=0,b=0,r=500", "c=2,numa=1,b=0,r=500", "c=2,numa=1,b=1,r=1000,k=1,ml=1,mp=100", "c=2,numa=0,b=0,r=500,ml=1"),
         "thorough": P("VerifAlloc", "c=2,numa=0,b=1,r=1000", "c=2,numa=0,b=0,r=500", "c=2,numa=1,b=0,r=500", "c=2,numa=1,b=1,r=1000,k=1,ml=1", "c=2,numa=0,b=0,r=500,ml=1", "c=2,numa=0,b=1,r=500,k=2", "c=2,numa=1,b=1,r=1000,k=2",
                       "c=2,numa=0,b=1,r=1200", "c=3,numa=0,b=1,r=1000,mp=100"), "samples": 2},
    ],
    "bounds": sched_bounds_q + "; " + sched_bounds_t, "outside": sched_out, "assumptions": node_assume + [plugin_stubs],
}
GCP = "github.com/projecteru2/core/resource/plugins/cpumem/schedule.GetCPUPlans"
cfg["C04"]["runs"].append({"dir": SCHED, "permute_ranges": [GCP], "quick": [], "thorough": P("VerifPlans", "c=2,numa=1,r=1000", "c=2,numa=1,r=1200"), "samples": 1})
cfg["C05"] = {
    "title": "CPU-bound instances receive exactly the CPU amount requested", "design_ref": "DESIGN.md §4 C05",
    "runs": [
        {"dir": SCHED, "quick": P("VerifPlans", "c=2,numa=0,r=1130", "c=2,numa=0,r=290", "c=2,numa=0,r=570", "c=2,numa=0,r=1200", "c=2,numa=0,r=250", "c=2,numa=0,r=1000"),
         "thorough": P("VerifPlans", "c=2,numa=0,r=1130", "c=2,numa=0,r=290", "c=2,numa=0,r=570", "c=2,numa=0,r=1200", "c=2,numa=0,r=250", "c=2,numa=0,r=1000",
                       "c=3,numa=0,r=2290", "c=2,numa=0,r=1500,sb=10,mp=20", "c=2,numa=0,r=1010,sb=1000,mp=1000"), "samples": 2},
        {"dir": SCHED, "float": "ieee", "solver": "z3-oneshot", "timeout_s": 120, "quick": P("VerifPiecesIEEE", "c=1,sb=100,lo=27,hi=32"),
         "thorough": P("VerifPiecesIEEE", "c=1,sb=100,lo=1,hi=100", "c=2,sb=100,lo=101,hi=130", "c=1,sb=10,lo=1,hi=10", "c=1,sb=1000,lo=275,hi=300"), "samples": 1},
        {"dir": CPUMEM, "quick": P("VerifAlloc", "c=2,numa=0,b=1,r=1130", "c=2,numa=0,b=1,r=1000,lim=2000,k=1"), "thorough": P("VerifAlloc", "c=2,numa=0,b=1,r=1130", "c=2,numa=0,b=1,r=1000,lim=2000,k=1", "c=2,numa=0,b=1,r=570,k=2", "c=2,numa=0,b=1,r=500,lim=1200,k=1"), "samples": 2},
    ],
    "bounds": "requests: the listed concrete requests (incl. the truncation-prone 0.29, 0.57, 1.13) on arbitrary node states; plus, with full IEEE-754 semantics (SMT FloatingPoint, RNE), every centi-core request k/100 with k in the stated range on a node of free whole-share cores",
    "outside": sched_out, "assumptions": node_assume + [plugin_stubs, "IEEE harness: request = float64(k)/100 (identical to the correctly rounded parse of the decimal); math.Round = roundToIntegral RNA"],
}
cfg["C06"] = {
    "title": "CPU planning always terminates without crashing", "design_ref": "DESIGN.md §4 C06",
    "runs": [
        {"dir": SCHED, "quick": P("VerifPlans", "c=2,numa=0,r=1,v=0", "c=2,numa=0,r=1000,v=0,sb=1,mp=3", "c=2,numa=0,r=1500,v=0,sb=10,mp=30", "c=2,numa=0,r=1300,v=0,sb=3,mp=9,ms=1",
                                  "c=2,numa=0,r=300,ms=1,v=0", "c=2,numa=0,r=250,ms=2,v=0", "c=2,numa=1,r=1000,v=0", "c=2,numa=0,r=1000,v=0"),
         "thorough": P("VerifPlans", "c=2,numa=0,r=1,v=0", "c=2,numa=0,r=1000,v=0,sb=1,mp=3", "c=2,numa=0,r=1500,v=0,sb=10,mp=30", "c=2,numa=0,r=1300,v=0,sb=3,mp=9,ms=1",
                       "c=2,numa=0,r=300,ms=1,v=0", "c=2,numa=0,r=250,ms=2,v=0", "c=2,numa=1,r=1000,v=0", "c=2,numa=0,r=1000,v=0", "c=2,numa=1,r=500,v=0", "c=3,numa=0,r=300,ms=1,v=0,mp=100",
                       "c=3,numa=0,r=1200,v=0,ms=2", "c=2,numa=0,r=9,v=0,mp=4", "c=3,numa=0,r=3000,v=0,mp=100", "c=2,numa=0,r=2500,v=0"), "samples": 2},
        {"dir": CPUMEM, "quick": P("VerifAlloc", "c=2,numa=0,b=1,r=300,ms=1", "c=2,numa=0,b=1,r=1"), "thorough": P("VerifAlloc", "c=2,numa=0,b=1,r=300,ms=1", "c=2,numa=0,b=1,r=1", "c=2,numa=0,b=1,r=1300,sb=3,mp=9,ms=1"), "samples": 1},
    ],
    "bounds": "V0 states (free memory may be negative), fragment-heavy nodes, requests below one piece (0.001), share bases {1,3,10,100}, max-share {-1,1,2}; every path either returns or is reported (panic / step budget 2M interpreted instructions exceeded => replayed natively under a 20 s cap)",
    "outside": sched_out + "; this is bounded non-termination detection, not a termination proof",
    "assumptions": node_assume + [plugin_stubs],
}
cfg["C07"] = {
    "title": "Reported deploy capacity equals what an allocation accepts", "design_ref": "DESIGN.md §4 C07",
    "runs": [
        {"dir": CPUMEM, "quick": P("VerifAlloc", "c=2,numa=0,b=1,r=1000", "c=2,numa=0,b=0,r=500", "c=2,numa=1,b=0,r=500", "c=2,numa=0,b=0,r=3000", "c=2,numa=0,b=0,r=500,ml=1", "c=2,numa=0,b=0,r=1000,grid=1") + P("VerifTotals", "nodes=2", "nodes=2,b=1"),
         "thorough": P("VerifAlloc", "c=2,numa=0,b=1,r=1000", "c=2,numa=0,b=0,r=500", "c=2,numa=1,b=0,r=500", "c=2,numa=0,b=0,r=3000", "c=2,numa=0,b=0,r=500,ml=1", "c=2,numa=1,b=0,r=500,ml=1", "c=2,numa=0,b=1,r=500,k=2", "c=2,numa=1,b=1,r=1000,k=2", "c=2,numa=0,b=1,r=300,ms=1")
                     + P("VerifTotals", "nodes=2", "nodes=2,b=1", "nodes=3", "nodes=3,b=1"), "samples": 2},
    ],
    "bounds": "count in [1,3] around the reported capacity (accepted iff count <= capacity, for every count in range); 1-3 nodes for the totals; shapes as C04",
    "outside": sched_out + "; capacities above the instance-count bound are compared through count<=capacity only",
    "assumptions": node_assume + [plugin_stubs],
}
cfg["C08"] = {
    "title": "Plugin resource bookkeeping is exact and reversible", "design_ref": "DESIGN.md §4 C08",
    "runs": [
        {"dir": CPUMEM, "quick": P("VerifAlloc", "c=2,numa=0,b=1,r=1000,grid=1", "c=2,numa=0,b=0,r=500,grid=1", "c=2,numa=1,b=0,r=500")
                                 + P("VerifRealloc", "c=2,numa=0", "c=2,numa=0,ob=0,mode=1,d=1000", "c=2,numa=0,ob=1,mode=2,d=0", "c=2,numa=0,ob=1,mode=0,d=500,grid=1", "c=2,numa=0,ob=1,or=1500,mode=0,d=-500,grid=1", "c=2,numa=1", "c=2,numa=1,ob=0,mode=1,d=1000", "c=2,numa=1,ob=1,mode=2,d=0"),
         "thorough": P("VerifAlloc", "c=2,numa=0,b=1,r=1000,grid=1", "c=2,numa=0,b=0,r=500,grid=1", "c=2,numa=1,b=0,r=500", "c=2,numa=1,b=1,r=1000,k=2", "c=2,numa=0,b=1,r=500,k=2,grid=1")
                     + P("VerifRealloc", "c=2,numa=0", "c=2,numa=0,ob=0,mode=1,d=1000", "c=2,numa=0,ob=1,mode=2,d=0", "c=2,numa=0,ob=1,mode=0,d=500,grid=1", "c=2,numa=0,ob=1,or=1500,mode=0,d=-500,grid=1", "c=2,numa=1", "c=2,numa=1,ob=0,mode=1,d=1000",
                         "c=3,numa=0,or=1500", "c=3,numa=0,or=500", "c=2,numa=0,or=500,mp=200", "c=3,numa=0,or=1000,grid=1", "c=2,numa=1,ob=1,mode=2,d=0", "c=2,numa=1,or=2000,d=-1000"), "samples": 2},
    ],
    "bounds": "one inductive step from an arbitrary pre-state U = R + w (R = usage of the other workloads, all components symbolic) for alloc(k<=3)/rollback-alloc and realloc (keep-bind, bind, unbind, grow, shrink)/rollback-realloc on 2-3 cores with and without NUMA; CPU totals on the quarter-core grid (utils.Round executed exactly on grid floats)",
    "outside": "decimal CPU totals off the quarter-core grid; more than 3 cores; JSON/mapstructure fidelity; the manager layer is checked with model plugins (the real cpumem plugin cannot be constructed from package cobalt: its store field is unexported), so manager + real plugin are composed by argument; goroutine interleavings in cobalt.call (one sequential schedule)",
    "assumptions": node_assume + [plugin_stubs, "the workload being re-allocated is part of the recorded usage (invariant established by every allocation step, which is itself checked here)"],
}
cfg["C15"] = {
    "title": "Resource repair restores consistent usage", "design_ref": "DESIGN.md §4 C15",
    "runs": [{"dir": CPUMEM, "quick": P("VerifFix", "c=1,numa=0,w=1", "c=2,numa=0,w=2", "c=2,numa=1,w=1"), "thorough": P("VerifFix", "c=1,numa=0,w=1", "c=2,numa=0,w=2", "c=2,numa=1,w=1", "c=2,numa=1,w=2", "c=3,numa=0,w=2"), "samples": 2}],
    "bounds": "1-3 cores, 0-2 NUMA nodes, 1-2 recorded workloads with symbolic per-core pieces, memory, NUMA memory and quarter-grid CPU, sum within capacity; recorded usage arbitrary per component (negative, above capacity, a core missing)",
    "outside": "more than 2 workloads / 3 cores; usage entries for cores or NUMA nodes that are not in the capacity; the calcium-level lock wrapper (doGetNodeResource)",
    "assumptions": [plugin_stubs, "the drifted state is written directly to the KV model (drift is never validated in reality either)"],
}
cfg["C32"] = {
    "title": "Unbound workloads are remapped onto free shared cores only", "design_ref": "DESIGN.md §4 C32",
    "runs": [{"dir": CPUMEM, "quick": P("VerifRemap", "c=2,w=2", "c=3,w=3", "c=2,w=2,sb=10,mp=30"), "thorough": P("VerifRemap", "c=2,w=2", "c=3,w=3", "c=2,w=2,sb=10,mp=30", "c=4,w=3,mp=100", "c=3,w=3,sb=1,mp=2"), "samples": 2}],
    "bounds": "1-4 cores with symbolic capacity/usage pieces, up to 3 workloads each bound (non-empty cpu map) or not (symbolic), share base {1,10,100}; one remap computation from an arbitrary node state (covers any history that leads to that state)",
    "outside": "the cobalt/calcium glue that applies the answer to engines (goroutines + engine I/O)",
    "assumptions": node_assume + [plugin_stubs],
}
cfg["C33"] = {
    "title": "Re-allocating a bound workload without change keeps its cores", "design_ref": "DESIGN.md §4 C33",
    "runs": [{"dir": CPUMEM, "quick": P("VerifRealloc", "c=2,numa=0,or=1000", "c=3,numa=0,or=1000", "c=3,numa=0,or=2000", "c=2,numa=0,or=1500", "c=2,numa=1"),
              "thorough": P("VerifRealloc", "c=2,numa=0,or=1000", "c=3,numa=0,or=1000", "c=3,numa=0,or=2000", "c=2,numa=0,or=1500", "c=2,numa=1", "c=4,numa=0,or=2000", "c=4,numa=0,or=3000", "c=3,numa=0,or=500", "c=3,numa=1,or=1000", "c=2,numa=0,or=1000,ms=1", "c=3,numa=0,or=2000,sb=10"), "samples": 2}],
    "bounds": "2-4 whole-share cores (capacity = share base), other usage symbolic (whole or fragment), bound workload with every valid cpu map (symbolic choice of cores) accounted in usage, keep-bind, CPU delta 0, memory delta symbolic",
    "outside": "cores with non-whole shares (outside the property); more than 4 cores; Go's random NUMA map order is represented by one deterministic order (sorted) in the interpreter",
    "assumptions": node_assume + [plugin_stubs],
}

CAL = 'cluster/calcium'
cal_stubs = common_stubs + "; context.WithCancel/WithTimeout/WithValue: tree model with cancellation flags (zzverif.Ctx); store.Store: in-harness model (nodes, workloads, recording locks)"
conc = lambda *pairs: P("VerifConcurrentOps", *[f"a={a},b={b},preempt={k}" for a, b, k in pairs])
conc_text = ("TWO API calls run concurrently as two goroutines over one world whose locks really exclude each other; every external call of the model "
             "(store / resource manager / engine / log / lock acquire and release) is a scheduling point, and the solver decides at which of them the other operation takes over, "
             "within a preemption budget of 2 (thorough 3): every interleaving at external-call granularity with at most that many preemptions is explored. "
             "Operations: remove w1, remove w2, realloc w1, realloc w2, dissociate w2, remove node b, create one instance on b, set-node b (delta capacity); w2 sits on node a or b (symbolic); no injected fault")
cfg["C17"] = {
    "title": "The transaction helper rolls back exactly when a step failed", "design_ref": "DESIGN.md §4 C17",
    "runs": [{"dir": "utils", "quick": ["VerifTxn", "VerifPCR"], "thorough": ["VerifTxn", "VerifPCR"], "samples": 4}],
    "bounds": "all outcome vectors: cond ok/fail x then absent/ok/fail x rollback absent/ok/fail, caller cancellation at {never, before the call, inside cond, inside then, at rollback start}; PCR: prepare/commit/rollback ok/fail. The space is finite and explored completely; every branch is a solver-decided symbolic Boolean.",
    "outside": "real timers: context.WithTimeout is modelled without expiry (ttl never fires); goroutine-based cancellation propagation of the real context package (replayed natively for sampled paths and counterexamples)",
    "assumptions": [cal_stubs],
}
cfg["C20"] = {
    "title": "Cluster operations take locks in one global order", "design_ref": "DESIGN.md §4 C20",
    "runs": [{"dir": CAL, "quick": P("VerifNodeLocks", "n=3,pods=2,inc=3,op=0", "n=3,pods=2,op=1") + P("VerifWorkloadLocks", "ids=3", "ids=3,long=1") + P("VerifReallocOp", "fault=0") + conc((8, 9, 2), (10, 8, 2), (0, 2, 2)),
              "thorough": P("VerifNodeLocks", "n=3,pods=2,inc=2,op=0", "n=3,pods=2,op=1", "n=3,pods=3,inc=3,op=0", "n=4,pods=2,inc=3,op=0", "n=3,pods=2,inc=0,op=0") + P("VerifWorkloadLocks", "ids=3", "ids=4") + P("VerifReallocOp", "fault=0") + conc((8, 9, 3), (10, 8, 3), (0, 2, 3), (5, 6, 2), (9, 3, 2)), "samples": 3}],
    "bounds": "node universe of 3-4 nodes over 2-3 pods (symbolic pod assignment), include lists of length <= 3 in any order with repeats, or pod-based selection; workload id lists of length <= 4 over 3 ids in any order with repeats; the sequential operation ReallocResource end to end (pod lock, then workload lock). DEADLOCK FREEDOM of operations whose locking happens inside pool goroutines: pairs of concurrent calls (remove [w1,w2] x remove [w2,w1], dissociate [w2,w1] x remove [w1,w2], remove w1 x realloc w1; thorough: + remove-node x create, remove x realloc) run over blocking locks under bounded symbolic preemption (2, thorough 3): a lock-order inversion shows as a deadlock (hang violation) in some interleaving",
    "outside": "lock sequences of replace, control, send; more than two concurrent calls; lock implementations themselves (C18/C19)",
    "assumptions": [cal_stubs, "locks are recording models; acquisition never fails"],
}
cfg["C21"] = {
    "title": "Node selection yields exactly the filtered set of distinct nodes", "design_ref": "DESIGN.md §4 C21",
    "runs": [{"dir": CAL, "quick": P("VerifFilterNodes", "n=3,inc=3", "n=3,inc=0,exc=2", "n=3,inc=1"), "thorough": P("VerifFilterNodes", "n=3,inc=3", "n=3,inc=0,exc=2", "n=3,inc=1", "n=3,inc=4", "n=4,inc=3", "n=4,inc=0,exc=2", "n=3,inc=0,exc=0"), "samples": 3}],
    "bounds": "include lists of length <= 4 over a 3-4 name universe (symbolic indices: any order, any repeats), exclude lists of length <= 2, the pod's nodes returned by the store in any order (symbolic permutation)",
    "outside": "label / down / bypass filtering inside store/*/node.go (etcd/redis + pool goroutines)",
    "assumptions": [cal_stubs],
}

ops_q = P("VerifReallocOp", "fault=8") + P("VerifRemoveOp", "fault=14", "fault=20,nodes=2,sched=lazy", "fault=14,cancel=1") + P("VerifDissociateOp", "fault=12", "fault=20,nodes=2,sched=lazy")
create_op = P("VerifCreateOp", "fault=24,count=2", "fault=24,count=2,sched=lazy") + P("VerifReplaceOp", "fault=16", "fault=16,sched=lazy") + P("VerifReplaceTwo", "fault=30", "fault=30,sched=lazy")
sched_t = P("VerifRemoveOp", "fault=20,nodes=2,sched=lazy,choices=4", "fault=20,nodes=2,sched=eager,choices=4") + P("VerifDissociateOp", "fault=20,nodes=2,sched=lazy,choices=4") + P("VerifCreateOp", "fault=24,count=2,sched=lazy,choices=2")
sched_text = ("Goroutines and ants pool tasks are scheduled cooperatively (a goroutine gives up control only where it blocks - channel receive, select, WaitGroup.Wait, Mutex.Lock - where it spawns, and where it ends) under TWO fixed policies: eager (a spawned goroutine runs at once; harness arguments without sched=) and lazy (the spawning side runs on until it blocks, then the oldest runnable goroutine; sched=lazy); "
              "in the thorough tier the first 2-4 scheduling points with several runnable goroutines are additionally SYMBOLIC choices (choices=n: one explored path per candidate). Sends never block (channels are FIFO queues)")
node_ops = P("VerifAddNodeOp", "fault=6", "fault=0,cancel=1") + P("VerifRemoveNodeOp", "fault=6") + P("VerifSetNodeOp", "fault=8")
ledger_assume = [cal_stubs,
    "abstract ledger world: store = set of workload records with one symbolic scalar resource amount each; resource manager = per-node usage with delta/incr semantics (the real plugin arithmetic is verified in C04/C08 and composed by argument only); engine = set of containers with the amount applied",
    "exactly one fallible model call fails, at a symbolic position among all store/plugin/engine calls the operation makes; every call after the injected fault succeeds (compensating steps succeed)",
    sched_text + "; the fire-and-forget remap (RemapResourceAndLog) is skipped",
    "pre-state satisfies usage(node) = sum of recorded workloads (the invariant itself), amounts in [0,2^30]"]
cfg["C10"] = {
    "title": "Node usage always equals the sum of the workloads recorded on the node", "design_ref": "DESIGN.md §4 C10",
    "runs": [{"dir": CAL, "inline_go": True, "quick": ops_q + create_op + conc((0, 1, 2), (2, 3, 2), (0, 3, 2), (4, 2, 2), (0, 2, 2), (4, 3, 2)), "thorough": ops_q + create_op + sched_t + P("VerifCreateOp", "fault=30,count=3", "two=1,count=3,slots=3") + conc((0, 1, 3), (2, 3, 3), (0, 3, 3), (4, 2, 3), (0, 2, 3), (1, 6, 2), (3, 6, 2)), "samples": 4}],
    "bounds": "one inductive step per operation (ReallocResource, RemoveWorkload, DissociateWorkload, CreateWorkload, ReplaceWorkload through the exported API) from an arbitrary ledger state satisfying the invariant (2 workloads on one node, or spread over two nodes by a symbolic choice; create: 2 empty nodes with 0-2 deployable slots each, AUTO, count<=2/3), with no fault or one fault at any call position (<=24), under the eager and the lazy schedule (thorough: plus 2-4 symbolic scheduling choices). CONCURRENT operations on different workloads: " + conc_text + "; pairs remove x remove, realloc x realloc, remove x realloc, dissociate x realloc on different workloads and remove x realloc, dissociate x realloc on the SAME workload (thorough: + same-workload remove x realloc, remove/realloc x create)",
    "outside": "whole-API histories, more than two concurrent calls or more than 2-3 preemptions, preemption inside an external call, the real plugin arithmetic (C04/C08), capacity bounds",
    "assumptions": ledger_assume,
}
cfg["C11"] = {
    "title": "A failed cluster operation leaves no lasting effect", "design_ref": "DESIGN.md §4 C11",
    "runs": [{"dir": CAL, "inline_go": True, "quick": ops_q + node_ops + create_op, "thorough": ops_q + node_ops + create_op + sched_t + P("VerifCreateOp", "fault=30,count=3"), "samples": 4}],
    "bounds": "ReallocResource, RemoveWorkload, DissociateWorkload, CreateWorkload, ReplaceWorkload (one workload, and two workloads of different pods in one call), AddNode, RemoveNode, SetNode through the exported API on a ledger of 2 workloads / 1-2 nodes; every position of the single failing step (<=24 positions); eager and lazy schedule (thorough: plus 2-4 symbolic scheduling choices)",
    "outside": " failures of compensating steps; operations running concurrently with each other and preemption between two blocking points; values returned through the `return v, f()` idiom (evaluation order unspecified by the language, go/ssa and gc differ)",
    "assumptions": ledger_assume,
}

COB = 'resource/cobalt'
cob_stubs = common_stubs + "; goroutines in cobalt.call run under the cooperative scheduler (exact channel semantics); sync.WaitGroup/Mutex run from real SSA over sequential sync/atomic primitives; sync.Map is an insertion-ordered table; plugins are in-harness models returning fixed answers"
cfg["C09"] = {
    "title": "Multi-plugin capacity aggregation is independent of plugin order", "design_ref": "DESIGN.md §4 C09",
    "runs": [{"dir": COB, "inline_go": True, "quick": P("VerifMerge", "p=2,n=1", "p=2,n=2", "p=1,n=2"), "thorough": P("VerifMerge", "p=2,n=1", "p=2,n=2", "p=1,n=2", "p=3,n=1", "p=3,n=2"), "samples": 3}],
    "bounds": "1-3 plugins, 1-2 nodes, each plugin offers an arbitrary subset with capacity in [1,2^40] or MaxInt, usage/rate grid floats m*2^-6 (0<=m<=2^12), weight from {1,2,100} per plugin; the merge order is a symbolic permutation of the plugins. The final division by the total weight is kept as an exact fraction and compared by cross-multiplication (IEEE rounding of that last quotient is outside the claim).",
    "outside": "values off the grid; rounding of the final division; more than 3 plugins; Go's map iteration order is represented by the plugin permutation; call()'s real goroutine scheduling",
    "assumptions": [cob_stubs],
}
cfg["C08"]["runs"].append({"dir": COB, "inline_go": True, "quick": P("VerifManagerLedger", "op=0", "op=1", "op=2", "op=0,sched=lazy,choices=3", "op=1,sched=lazy,choices=3", "op=2,choices=3"), "thorough": P("VerifManagerLedger", "op=0", "op=1", "op=2", "op=0,sched=lazy,choices=4", "op=1,sched=lazy,choices=4", "op=2,sched=lazy,choices=4", "op=0,choices=4", "op=1,choices=4", "op=2,choices=4"), "samples": 3})
cfg["C08"]["bounds"] += "; resource-manager layer (cobalt.Manager.Alloc/RollbackAlloc/Realloc/RollbackRealloc/SetNodeResourceUsage with the real call/PCR code) over two model plugins with scalar usage, count<=2, one fault per plugin method; the plugin goroutines of cobalt.call are scheduled cooperatively (eager, lazy, and 3-4 symbolic scheduling choices: every order in which the plugins answer)"
cfg["C07"]["runs"].append({"dir": COB, "inline_go": True, "quick": P("VerifMerge", "p=2,n=2", "p=1,n=2"), "thorough": P("VerifMerge", "p=2,n=2", "p=1,n=2", "p=3,n=2"), "samples": 2})

cfg["C16"] = {
    "title": "The recovery log replays exactly the uncommitted events", "design_ref": "DESIGN.md §4 C16",
    "runs": [{"dir": "wal", "quick": P("VerifHydro", "ops=3", "ops=4"), "thorough": P("VerifHydro", "ops=3", "ops=4", "ops=5,c=0"), "samples": 4}],
    "bounds": "operation sequences of length <= 4 (thorough 5 without the last two operations) over {log type a, log type b, log an unregistered type, commit the k-th logged event, recover, log type c, restart with a Hydro that no longer has the handler of type c}, every handler outcome symbolic per call (Decode error, Check error, Check not-needed, Handle error/ok)",
    "outside": "persistence and sequence monotonicity across process restarts (bbolt/Lithium is I/O), concurrent loggers, the key codec for arbitrary 64-bit ids (ids here are the concrete sequence numbers 1..n handed out by the model store)",
    "assumptions": [common_stubs + "; kv.KV: ordered in-memory table with a sequence counter (Scan returns entries in key order through a model channel); haxmap: insertion-ordered table; encoding/json: opaque deep-copy token"],
}
cfg["C31"] = {
    "title": "Engine settings faithfully enforce allocated resources", "design_ref": "DESIGN.md §4 C31",
    "runs": [{"dir": "engine/docker", "quick": P("VerifResourceSetting", "cores=2,remap=0", "cores=2,remap=1") + P("VerifUpdateResource", "cores=2"),
              "thorough": P("VerifResourceSetting", "cores=2,remap=0", "cores=2,remap=1", "cores=3,remap=0", "cores=3,remap=1") + P("VerifUpdateResource", "cores=2", "cores=3"), "samples": 3}],
    "bounds": "CPU amounts on the 1/4096-core grid in [0,8] cores (exact binary fractions, fine enough for the shares rounding to matter) plus the special values -1 (unlimited) and 0; memory symbolic in [0,2^50]; cpu map = any subset of 2-3 cores with symbolic pieces; NUMA node in {none, 0, 1}; remap flag; update path with a model docker client (Info, ContainerUpdate)",
    "outside": "decimal CPU amounts off the 1/4096 grid (0.29 cores * 100000 truncates to 28999 microseconds: off by one period unit, accepted by the property's tolerance); the create path beyond makeResourceSetting and the Docker API itself",
    "assumptions": [common_stubs + "; docker client: in-harness model capturing the UpdateConfig; mapstructure.Decode: structural model; math.Modf/Round on grid floats: exact integer formulas"],
}

cfg["C29"] = {
    "title": "File transfers deliver identical content and always finish", "design_ref": "DESIGN.md §4 C29",
    "runs": [{"dir": "rpc", "quick": P("VerifChunks", "chunks=3"), "thorough": P("VerifChunks", "chunks=3", "chunks=6"), "samples": 4}],
    "bounds": "chunking only: content is an abstract byte slice of SYMBOLIC length L in [0, 3*2048+3] (thorough 6*2048+6): every L in range at once, including 0, below/at/above multiples of the chunk size; owner, mode symbolic",
    "outside": "pipes, per-target goroutines, engine failures, completion and the byte-identity of what the engine writes (I/O and concurrency in rpc.go / sendlarge.go); the empty file yields zero chunks, whether the receiving side then creates the file is not decided here",
    "assumptions": [common_stubs + "; abstract slices support len, cap and bounds-checked re-slicing only (the chunker never reads bytes)"],
}
cfg["C29"]["runs"].append({"dir": CAL, "inline_go": True, "quick": P("VerifSendLarge", "chunks=2,targets=2", "chunks=12,targets=1", "chunks=13,targets=2", "chunks=24,targets=2", "chunks=30,targets=1"), "thorough": P("VerifSendLarge", "chunks=2,targets=2", "chunks=12,targets=1", "chunks=13,targets=2", "chunks=13,targets=2,sched=lazy", "chunks=3,targets=2,choices=3", "chunks=24,targets=2"), "samples": 1})
cfg["C29"]["title"] = "File transfers deliver identical content and always finish"
cfg["C29"]["bounds"] += ". Cluster side (Calcium.SendLargeFile with its per-target senders, io.Pipe, copy goroutines and wait group, under the cooperative scheduler with exact channel semantics): one file of 2-30 chunks to 1-2 targets; every target's engine symbolically accepts (reads to the end), rejects before reading, or aborts after the first read; the second target may not exist; owner and mode symbolic. Every accepting target must hold byte-identical content with the requested owner, mode, size and path, there is exactly one result per target, and the call finishes (a block is a hang violation, replayed natively under the 20 s cap)"
cfg["C29"]["outside"] = "the gRPC layer on top (rpc.go SendLargeFile: stream handling), several files in one call, more than two targets; what the engine itself writes (the Docker API); the empty file yields zero chunks, whether the receiving side then creates the file is not decided here"
cfg["C29"]["assumptions"] = cfg["C29"]["assumptions"] + ledger_assume

cfg["C36"] = {
    "title": "Client watch streams retry transparently", "design_ref": "DESIGN.md §4 C36",
    "runs": [{"dir": "client/interceptor", "quick": P("VerifStreamRetry", "max=1,recv=2,listed=1", "max=0,recv=2,listed=1", "max=1,recv=1,listed=0", "max=2,recv=1,listed=1,cancel=1"),
              "thorough": P("VerifStreamRetry", "max=1,recv=2,listed=1", "max=0,recv=2,listed=1", "max=1,recv=1,listed=0", "max=2,recv=2,listed=1", "max=1,recv=3,listed=1", "max=2,recv=1,listed=1,cancel=1", "max=3,recv=2,listed=1,cancel=1"), "samples": 3}],
    "bounds": "retry budget Max in {0,1,2}; up to 3 RecvMsg calls by the caller; every server-side outcome symbolic per call: message / EOF / error / context.Canceled, reopen ok/fail, re-send ok/fail",
    "outside": "real gRPC transport and back-off timing: backoff.Retry is modelled by its contract (repeat until nil or the policy says Stop; no sleeping), ExponentialBackOff by a constant delay; the caller cancelling its context while a reopen attempt is in flight is a symbolic event (cancel=1); NewUnaryRetry",
    "assumptions": [common_stubs + "; grpc.ClientStream / Streamer: in-harness models; sync.RWMutex: real SSA over sequential atomics"],
}

cfg["C33"]["runs"].append({"dir": CPUMEM, "permute_ranges": [GCP], "quick": [], "thorough": P("VerifRealloc", "c=2,numa=1", "c=3,numa=1,or=1000"), "samples": 1})
cfg["C06"]["runs"].append({"dir": CPUMEM, "step_budget": 300000, "quick": P("VerifRealloc", "c=2,numa=0,or=1000,mp=200", "c=2,numa=0,or=1000,mp=300,d=1000,mode=1"), "thorough": P("VerifRealloc", "c=2,numa=0,or=1000,mp=200", "c=2,numa=0,or=1000,mp=300,d=1000,mode=1", "c=3,numa=0,or=2000,mp=200"), "samples": 1})
cfg["C06"]["bounds"] += "; the affinity path (CalculateRealloc of a bound workload) on oversold cores (up to 2-3 share bases per core)"
cfg["C06"]["runs"].append({"dir": SCHED, "permute_ranges": [GCP], "quick": [], "thorough": P("VerifPlans", "c=2,numa=1,r=1000,v=0"), "samples": 1})

cfg["C12"] = {
    "title": "Deployment results are complete and truthful", "design_ref": "DESIGN.md §4 C12 / §7.2",
    "runs": [{"dir": CAL, "inline_go": True, "quick": P("VerifCreateOp", "fault=24,count=2", "fault=30,count=3", "fault=24,count=2,sched=lazy"), "thorough": P("VerifCreateOp", "fault=24,count=2", "fault=30,count=3", "two=1,count=3,slots=3", "fault=24,count=2,sched=lazy", "fault=30,count=3,sched=lazy", "fault=24,count=2,sched=lazy,choices=2", "fault=24,count=2,sched=eager,choices=2"), "samples": 4}],
    "bounds": "Calcium.CreateWorkload through the exported API: AUTO over two nodes with 0-2 deployable slots each (symbolic), count 1-2 (thorough 3), symbolic resource amount, no fault or one fault at any of the store / plugin / engine / WAL calls (<=24 positions). Cooperative scheduling under the eager and the lazy policy (thorough: plus 2 symbolic scheduling choices)",
    "outside": "preemption of the per-node and per-instance goroutines between two blocking points and schedules beyond the stated ones (the property is quantified over requests and faults, not schedules); other strategies and node filters at this level (the strategies themselves: C01-C03); file injection, hooks, image pull",
    "assumptions": ledger_assume,
}

cfg["C14"] = {
    "title": "A crash during deployment is repaired by recovery", "design_ref": "DESIGN.md §4 C14 / §7.2",
    "runs": [{"dir": CAL, "inline_go": True, "quick": P("VerifCrashRecovery", "crash=24,count=2", "crash=24,count=2,sched=lazy") + P("VerifLambdaRecovery", "occ=4,count=1") + ["VerifDecodeProbe"], "thorough": P("VerifCrashRecovery", "crash=24,count=2", "crash=32,count=3", "crash=24,count=2,sched=lazy", "crash=24,count=2,sched=lazy,choices=2") + P("VerifLambdaRecovery", "occ=4,count=1", "occ=4,count=2", "occ=4,count=1,sched=lazy") + ["VerifDecodeProbe"], "samples": 6}],
    "bounds": "CreateWorkload (AUTO, two nodes with 0-2 deployable slots, count 1-2, thorough 3) is stopped at EVERY position between two externally visible steps (store / plugin / engine / log calls, <=24-32 positions, symbolic): from that call on nothing the dying process does reaches the store, the resource records, the engine or the log. Then a new Calcium instance sharing those runs the real WAL handlers (CreateWorkloadHandler, WorkloadResourceAllocatedHandler, ProcessingCreatedHandler) through Recover. Run-and-wait deployments (VerifLambdaRecovery): RunAndWait stopped at the n-th call (n<=4) of any store / plugin / engine / log call site, exit code in {0,1,255}; recovery with the CreateLambdaHandler as well must remove every workload whose create-lambda entry was uncommitted (record and container) and leave usage = sum of recorded workloads",
    "outside": "the bbolt log file itself and process restart (the log is a model with Hydro's replay semantics - those are C16); schedules other than the eager and the lazy cooperative one (thorough: plus 2 symbolic scheduling choices); crashes during recovery; a crash inside the REMOVAL phase of a finished run-and-wait workload (a crash of a removal, not of a deployment); the real plugin's repair arithmetic (C15) is replaced by usage := sum of recorded workloads",
    "assumptions": ledger_assume + ["a crash is modelled by freezing the world: the interrupted operation keeps executing its error paths in memory but no call has any effect any more (equivalent to process death for everything persistent)", "lock leases of the dead process have expired when the new instance starts"],
}

cfg["C30"] = {
    "title": "Run-and-wait workloads are always cleaned up", "design_ref": "DESIGN.md §7.2 / §7.5",
    "runs": [{"dir": CAL, "inline_go": True, "quick": P("VerifRunAndWait", "count=2", "count=2,sched=lazy", "count=1,cancel=1"), "thorough": P("VerifRunAndWait", "count=2", "count=3", "count=2,sched=lazy", "count=2,sched=lazy,choices=4", "count=2,sched=eager,choices=3", "count=1,cancel=1", "count=2,cancel=1"), "samples": 4}],
    "bounds": "Calcium.RunAndWait (no stdin) through the exported API on top of the real CreateWorkload pipeline: AUTO over two nodes with 0-2 deployable slots (symbolic), count 1-2 (thorough 3), exit code in {0,1,255}; engine outcomes: logs and wait succeed, or the n-th fetch-logs call fails, or the n-th wait call fails; with cancel=1 the caller's context may end while a workload is being waited for (store reads under a dead context fail like a real client's). Cooperative scheduling under the eager and the lazy policy (thorough: plus 3-4 symbolic scheduling choices; sends never block: channels are FIFO queues); log streams end immediately",
    "outside": "preemption between two blocking points and schedules beyond the stated ones; stdin/attach mode; log content forwarding (bufio scanning of real output); failures of the removal itself (the property quantifies over log/wait outcomes); the RPC layer on top (rpc.go)",
    "assumptions": ledger_assume,
}

cfg["C24"] = {
    "title": "Metadata queries are isolated per application, entrypoint and node", "design_ref": "DESIGN.md §4 C24 / §7.2",
    "runs": [{"dir": "utils", "quick": P("VerifNameCodec", "a=2,e=2,s=2", "a=3,e=2,s=2", "a=1,e=3,s=3"), "thorough": P("VerifNameCodec", "a=2,e=2,s=2", "a=3,e=2,s=2", "a=1,e=3,s=3", "a=4,e=3,s=2", "a=5,e=2,s=1"), "samples": 3}],
    "bounds": "the name codec only (second sentence of the property): application, entrypoint and suffix are strings of SYMBOLIC bytes (every byte 1..127 at once) of the stated lengths (app 1-5, entrypoint 1-3, suffix 1-3); accepted names = non-empty application name, Entrypoint.Validate accepts the entrypoint name (executed on the symbolic bytes), suffix letters only",
    "outside": "query isolation in store/*/workload.go and deploy.go (key prefixes scanned by etcd / Redis: I/O); node names; non-ASCII bytes and longer names (the codec loops are per byte, so the length bound is a stated bound, not a proof)",
    "assumptions": [common_stubs + "; strings with symbolic bytes: the real strings.Join/Split/TrimLeft/Contains SSA runs, the two assembly kernels bytealg.IndexByteString / CountString are byte-wise models"],
}

cfg["C13"] = {
    "title": "Deploy status counts are exact and in-progress markers are cleaned up", "design_ref": "DESIGN.md §4 C13 / §7.2",
    "runs": [{"dir": CAL, "inline_go": True, "quick": P("VerifDeployStatus", "fault=24,count=2", "fault=24,count=2,sched=lazy"), "thorough": P("VerifDeployStatus", "fault=24,count=2", "fault=32,count=3,slots=3", "fault=24,count=2,sched=lazy", "fault=24,count=1,sched=lazy,choices=2"), "samples": 4}],
    "bounds": "the cluster half of the property: Calcium.CreateWorkload (AUTO over two nodes with 0-2 deployable slots, 0-2 earlier workloads of the same application entrypoint per node, count 1-2, thorough 3) with no fault or one fault at any store / plugin / engine / WAL call (<=24-32 positions); the deploy status (recorded workloads + in-progress marker) is observed at EVERY intercepted call of the deployment and after it has returned. Cooperative scheduling under the eager and the lazy policy (thorough: plus 2 symbolic scheduling choices)",
    "outside": "the two store backends themselves: that etcd's BatchCreateAndDecr transaction / Redis' pipeline add the workload and decrement the marker atomically, and how GetDeployStatus scans keys, is I/O against external servers and is replaced by a model with exactly that contract; preemption between two blocking points and schedules beyond the stated ones; a failing DeleteProcessing (a store failure, not an instance failure) leaves the marker by construction",
    "assumptions": ledger_assume + ["store model: CreateProcessing sets the node's marker to the given count, AddWorkload(workload, processing) records the workload and decrements the marker in one step, DeleteProcessing removes it, GetDeployStatus = recorded workloads of the node + marker", "instances planned for a node = the count the deployment asks the resource manager to allocate for it (rmgr.Alloc argument)"],
}

cfg["C22"] = {
    "title": "Pods, nodes, node resources and workloads stay referentially consistent", "design_ref": "DESIGN.md §7.5 C22",
    "runs": [{"dir": CAL, "inline_go": True, "quick": conc((5, 6, 2), (6, 5, 2), (7, 6, 2), (5, 1, 2), (5, 7, 2)) + P("VerifAddNodeOp", "fault=6") + P("VerifRemoveNodeOp", "fault=6"),
              "thorough": conc((5, 6, 3), (6, 5, 3), (7, 6, 3), (5, 1, 3), (5, 7, 2), (1, 6, 2), (6, 6, 2)) + P("VerifAddNodeOp", "fault=6") + P("VerifRemoveNodeOp", "fault=6"), "samples": 2}],
    "bounds": conc_text + ". Checked at the quiescent point (both calls returned, every goroutine ended): every recorded workload belongs to a recorded node, every recorded node has a resource record and vice versa. Pairs: remove-node x create, create x remove-node, set-node x create, remove-node x remove-workload, remove-node x set-node (thorough: + remove x create, create x create); plus the single-fault add-node / remove-node steps of C11",
    "outside": "pods (RemovePod's emptiness check lives in the stores: etcd/Redis I/O); more than two concurrent calls; more than 3 preemptions; preemption inside one external call or between two of them; the stores' own transactions",
    "assumptions": ledger_assume + ["locks are blocking mutual-exclusion models keyed like the real ones; lock leases never expire"],
}

cfg["C27"] = {
    "title": "Service discovery subscribers converge to the registered set", "design_ref": "DESIGN.md §7.5 C27",
    "runs": [{"dir": "discovery/helium", "quick": P("VerifHelium", "subs=2,steps=3", "subs=2,steps=3,slow=1", "subs=3,steps=2,choices=2", "subs=2,steps=3,choices=2"),
              "thorough": P("VerifHelium", "subs=2,steps=3", "subs=2,steps=3,slow=1", "subs=3,steps=2,choices=2", "subs=2,steps=4", "subs=3,steps=3,slow=1", "subs=2,steps=3,choices=4", "subs=2,steps=3,sched=lazy"), "samples": 2}],
    "bounds": "the real Helium (New/start loop, dispatch, Subscribe, Unsubscribe) with 2-3 subscribers, each reading promptly (a goroutine draining its channel) or slow (not reading; symbolic per subscriber), and a SYMBOLIC sequence of 2-4 environment events: registrations change (one of three address sets arrives on the store's watch stream), the push interval elapses (a tick), a subscriber's context ends, a subscriber unsubscribes (after its context ended, as the cluster layer does). After every event the system runs until every goroutine is idle; then every live prompt subscriber must hold the latest registered set, and an unsubscribed one must have seen its channel closed. Go channel semantics are exact (unbuffered = rendezvous, select = first ready case); goroutines are scheduled cooperatively (eager; thorough also lazy and 2-4 symbolic scheduling choices). A call that can never return is a hang violation",
    "outside": "the etcd watch behind ServiceStatusStream (store/etcdv3/service.go: I/O) and service registration itself; real time (the ticker is a channel the harness feeds; 'within one push interval' is read as 'after the next dispatch'); more than 3 subscribers or 4 events; subscribing while the loop is running concurrently with a dispatch (haxmap's own thread-safety); the RPC layer's WatchServiceStatus loop",
    "assumptions": [common_stubs + "; haxmap: insertion-ordered table; time.NewTicker: a harness-fed channel; uuid.New: counter; context: tree model with real Done channels",
                    "natively (replay of counterexamples) the ticker is the real one-second ticker and a hang is detected by a 20 s cap"],
}

cfg["C28"] = {
    "title": "A failed node's workloads are reported down", "design_ref": "DESIGN.md §7.5 C28",
    "runs": [{"dir": "selfmon", "quick": P("VerifSelfmon", "nodes=2,steps=3", "nodes=3,steps=2", "nodes=2,steps=3,sched=lazy", "nodes=2,steps=3,choices=2"), "thorough": P("VerifSelfmon", "nodes=2,steps=3", "nodes=3,steps=3", "nodes=2,steps=4", "nodes=2,steps=3,sched=lazy", "nodes=2,steps=3,choices=3"), "samples": 2},
             {"dir": CAL, "inline_go": True, "quick": P("VerifSetNodeDown", "fault=8,wl=3"), "thorough": P("VerifSetNodeDown", "fault=8,wl=3", "fault=10,wl=3,sched=lazy"), "samples": 3}],
    "bounds": "two halves, both real code, composed by argument. Watcher half (selfmon: withActiveLock, monitor, initNodeStatus, dealNodeStatusMessage under the cooperative scheduler with exact channel semantics): 2-3 nodes, a SYMBOLIC sequence of 2-4 events (a node's heartbeat status disappears, a heartbeat arrives, the watcher becomes active), the watcher active from the beginning or activated later, SetNode calls that may outlast the configured global timeout (symbolic: every deadline armed so far then elapses), and - with choices=n - a symbolic pick among several ready select cases (Go picks at random); at idleness every node whose status lapsed - while the watcher was active, or before it became active and still lapsed then - has had SetNode(WorkloadsDown) requested, and no node that never lapsed has. Cluster half (Calcium.SetNode with WorkloadsDown -> setAllWorkloadsOnNodeDown in the ledger world): 3 workloads spread over two nodes (symbolic), no fault or one fault at any store / plugin call: every workload recorded on the node is reported not running and not healthy under its own id/app/entrypoint, workloads of the other node are untouched",
    "outside": "how the stores produce the status stream (etcd watch / Redis keyspace events: I/O) and TTL expiry itself; the active-watcher election (StartEphemeral is a model that always grants: C26); time.Sleep back-offs; a status write the store refuses (a store failure); 'eventually' is read as 'when every goroutine is idle'",
    "assumptions": [cal_stubs, "cluster.Cluster (ListPodNodes, GetNodeStatus, NodeStatusStream, SetNode) and store.StartEphemeral are in-harness models in the watcher half; the ledger world of C10/C11 in the cluster half"],
}

ETCDM = 'store/etcdv3/meta'
etcd_model = ("the etcd server is an in-harness model: keys with version / create / mod revision and an attached lease, leases with a granted TTL and an expiry instant on a VIRTUAL clock (an expired or revoked lease takes its keys with it; a put re-binds the key to the put's lease), "
              "transactions evaluated like the server does (every comparison against the pre-state, then the chosen branch, nested transactions recursively, a put naming a missing lease fails the whole transaction); "
              "the requests themselves (Compare, OpPut, OpGet, OpDelete, OpTxn, WithLease ...) are built by the REAL clientv3 code, executed from its SSA, and only interpreted by the model (the private lease id of an Op is read through the vFieldInt intrinsic)")
cfg["C25"] = {
    "title": "Status reports are bound to live entities and expire", "design_ref": "DESIGN.md §7.5 C25/C26",
    "runs": [{"dir": ETCDM, "quick": P("VerifBindStatus", "steps=4", "steps=2,fault=1"), "thorough": P("VerifBindStatus", "steps=4", "steps=5", "steps=3,fault=1"), "samples": 4}],
    "bounds": "etcd backend, one entity and its status key: the real ETCD.BindStatus / bindStatusWithTTL / bindStatusWithoutTTL / isTTLChanged / GetOne / BatchDelete over a SYMBOLIC sequence of 4 (thorough 5) events - a report (one of two values; TTL zero or any TTL in [1,3600] s, symbolic: equal to an earlier TTL or not is the solver's case split), time passing (any amount in [1,7200] s, symbolic), the entity removed together with its status (as the store does), the entity created - optionally with one failing lease call (grant / time-to-live / keepalive / revoke) at a symbolic position; after every event the status must be visible exactly when a reference model (latest value, expiry instant) says so, with the latest value; a report with a positive TTL for a missing entity must be refused",
    "outside": "the Redis backend (go-redis against a server: I/O); the store layer above meta (key layout, JSON, negative TTL = delete in store/etcdv3/node.go); etcd's minimum lease TTL and the granularity of lease expiry; concurrent reports for one key; watch streams",
    "assumptions": [common_stubs, etcd_model],
}
cfg["C26"] = {
    "title": "Ephemeral registrations are exclusive and owner-safe", "design_ref": "DESIGN.md §7.5 C25/C26",
    "runs": [{"dir": ETCDM, "quick": P("VerifEphemeral", "steps=4", "steps=4,sched=lazy"), "thorough": P("VerifEphemeral", "steps=4", "steps=5", "steps=4,sched=lazy", "steps=4,choices=3"), "samples": 2}],
    "bounds": "etcd backend, two registrants on one key: the real ETCD.StartEphemeral (lease grant, create-if-absent transaction, keepalive goroutine with its ticker, revoke on exit, the returned expiry channel and unregister function) under the cooperative scheduler; a SYMBOLIC sequence of 4 (thorough 5) events - a registrant registers, its heartbeat fires, time passes (any amount in [1,30] s against a 9 s TTL: shorter or longer than the TTL), a registrant deregisters. After every event: a refused registration only while the key is held; every registrant that has had a heartbeat since the clock moved and has not been notified of a lapse really owns the key, and there is at most one; the key always belongs to the lease of the registrant that created it and that lease is live",
    "outside": "the Redis backend (SETNX / EXPIRE / DEL against a server); a paused registrant keeps believing until its next heartbeat (inherent to leases: the exclusivity claim is about registrants whose heartbeat ran); selfmon's use of the key (its watcher half is C28); real time (the ticker is a channel the harness feeds)",
    "assumptions": [common_stubs, etcd_model, "time.NewTicker: a harness-fed channel per keepalive loop; context: tree model with real Done channels"],
}

cfg["C13"]["runs"].append({"dir": ETCDM, "quick": P("VerifBatchCreateAndDecr", "v=1"), "thorough": P("VerifBatchCreateAndDecr", "v=1", "v=1,sched=lazy", "v=1,choices=3"), "samples": 3})
cfg["C13"]["bounds"] += "; etcd backend's atomic step: the real ETCD.BatchCreateAndDecr (read, compare-and-swap transaction through doBatchOp with its goroutines, retry loop) over the model etcd from a symbolic pre-state (marker missing / not a number / any count in [0,9], the workload key present or not) with another client optionally decrementing the marker before the first or second commit"
cfg["C13"]["outside"] = cfg["C13"]["outside"].replace("the two store backends themselves: that etcd's BatchCreateAndDecr transaction / Redis' pipeline add the workload and decrement the marker atomically, and how GetDeployStatus scans keys, is I/O against external servers and is replaced by a model with exactly that contract", "the Redis backend (a pipeline against a server: I/O) and how GetDeployStatus scans keys; in the cluster-level runs the store is a model with the add-and-decrement contract (the etcd implementation of that step is checked separately against the model etcd)")
cfg["C13"]["assumptions"] = cfg["C13"]["assumptions"] + [etcd_model]

cfg["C35"] = {
    "title": "RPC authentication accepts exactly matching credentials", "design_ref": "DESIGN.md §4 C35 / §7.2",
    "runs": [{"dir": "auth/simple", "quick": P("VerifAuth", "u=2,p=1,same=1", "u=3,p=0,same=1", "u=2,p=1", "u=2,p=1,cu=3,cp=0", "u=1,p=2"), "thorough": P("VerifAuth", "u=2,p=1,same=1", "u=3,p=0,same=1", "u=3,p=2,same=1", "u=2,p=1", "u=2,p=1,cu=3,cp=0", "u=1,p=2", "u=3,p=1", "u=3,p=2,cu=2,cp=2"), "samples": 3}],
    "bounds": "server and client usernames of 1-3 and passwords of 0-2 SYMBOLIC bytes each (every valid byte value at once: usernames over [0-9A-Za-z._-] and not the reserved header name te, passwords over printable ASCII including blanks), equal or different lengths, client configured with the server's own strings or independently; one unary and one streaming call",
    "outside": "longer names (the code loops per byte: the length bound is a stated bound); usernames ending in -bin (base64 transport encoding) or that grpc reserves (grpc-*, content-type, user-agent, te, pseudo headers); control characters in passwords (not valid metadata values; grpc-go was checked natively to deliver leading, trailing and inner blanks unchanged); TLS; in the SYMBOLIC run the HTTP/2 transport is a three-line stub (per-RPC credential keys lower-cased as http2_client.getCallAuthData does, values unchanged, standard headers added) - every natively replayed path (samples and counterexamples) ALSO performs both calls over a real in-process grpc-go connection (bufconn) with the real interceptors installed and asserts the stub's verdict equals the real one",
    "assumptions": [common_stubs + "; strings with symbolic bytes (real strings.ToLower SSA); maps keyed by symbolic strings: linear scan with one solver decision per candidate key", "two metadata keys are the same username iff they are equal ignoring ASCII case (gRPC metadata keys are case-insensitive and travel in lower case)"],
}

meta = {
    "C25": "meta.ETCD.BindStatus and helpers run against a model etcd (virtual clock, leases, server-like transactions) with the real clientv3 request builders; events, TTLs and elapsed times are symbolic; z3-decided paths prove the status is visible exactly while a reference model says it is alive, with the latest value, and that reports for a missing entity are refused.",
    "C26": "meta.ETCD.StartEphemeral (with its keepalive goroutine under the cooperative scheduler) runs for two registrants against the model etcd over a symbolic event sequence with symbolic pauses; z3-decided paths prove exclusivity among registrants whose heartbeat ran, notification of lapses, and that the key always belongs to its creator's live lease. The active node-status watcher (selfmon.withActiveLock) runs as a registrant over a model store: when its registration lapses it stops and gives the registration back.",
    "C28": "selfmon's watcher (withActiveLock, monitor, initNodeStatus, dealNodeStatusMessage) runs under gosym's scheduler against a model cluster with a symbolic sequence of heartbeat lapses / arrivals / activation; Calcium.SetNode(WorkloadsDown) runs against the ledger world with a symbolic single fault; z3-decided paths prove that every lapsed node gets its workloads-down request and that the request reports every workload recorded on that node as neither running nor healthy.",
    "C27": "discovery/helium's loop, dispatch, Subscribe and Unsubscribe are executed under gosym's cooperative scheduler with exact Go channel semantics; the environment's events (registration change, tick, context end, unsubscribe) are a symbolic sequence and each subscriber is symbolically prompt or slow; z3-decided paths prove convergence of every live prompt subscriber and completion of Unsubscribe, outside one recorded finding (a slow subscriber blocks the dispatcher).",
    "C22": "Two real cluster API calls (RemoveNode, CreateWorkload, SetNode, RemoveWorkload ...) run as two interpreted goroutines over one ledger world with blocking locks under gosym's cooperative scheduler; each external call is a scheduling point and the preemption decisions are symbolic Booleans, so the solver-driven exploration covers every interleaving at external-call granularity within the preemption budget; z3-decided paths prove referential consistency at quiescence, outside one recorded finding (remove-node racing with a deployment on that node). Store half: the real Mercury.RemovePod over a model meta.KV (a pod with a node record in any state is never removed); plugin half: the real cpumem RemoveNode over an option-aware delete model with symbolically chosen node names (prefix relations).",
    "C13": "The real CreateWorkload pipeline runs against the ledger world whose store model keeps the in-progress marker with the BatchCreateAndDecr contract; an observer evaluates the reported deploy status at every intercepted call; z3-decided paths prove the status stays within [recorded workloads, prior + planned] during the deployment and equals the recorded workloads with no marker left after it returned, for every single-fault position.",
    "C35": "simple.BasicCredential.GetRequestMetadata, grpc metadata.NewIncomingContext/FromIncomingContext and BasicAuth.{UnaryInterceptor,StreamInterceptor,doAuth} are executed on usernames/passwords made of symbolic bytes with a stub for the HTTP/2 transport; z3 proves per path that both calls are served iff the usernames are the same metadata key and the passwords are equal; natively replayed paths repeat both calls over a real in-process gRPC connection.",
    "C01": "Every feasible path of strategy.Deploy and the five real strategy functions (real container/heap and sort SSA) is executed with capacities, counts, need, limit, usage and rate symbolic; on each path z3 proves the plan assertions (only candidates, 0<=d<=capacity, exact totals, EACH/FILL selection sizes, AUTO node limit) for all values inside the bounds, or returns a model that is replayed natively. Bounded by node count and, for AUTO/GLOBAL, by need.",
    "C02": "Same exploration; on every path z3 proves err==nil <=> a harness-side reference feasibility predicate (saturating sums, no wrap) and that a refusal returns no plan.",
    "C03": "Same exploration; relational assertions over the returned plan (AUTO evenness within one, GLOBAL usage balance by repeated FP addition on exact grid floats, DRAINED smaller-first, EACH most-capacity, FILL most-instances) are proved per path.",
    "C04": "schedule.GetCPUPlans and the cpumem plugin's CalculateDeploy + SetNodeResourceUsage are executed on arbitrary symbolic node states (V1); per path z3 proves that the returned instances jointly fit every core, every NUMA node's cores/memory and total memory, and that the committed state is accepted by Validate with usage <= capacity.",
    "C05": "Piece totals and shape (whole shares + at most one fragment) are proved on arbitrary node states for truncation-prone concrete requests, and with full IEEE-754 semantics for every centi-core request in range; the recorded CPU amount is compared with the pieces given.",
    "C06": "All paths of CPU planning / capacity / deploy calculation over V0 states and hostile configurations are explored; a path that panics or exceeds the step budget is a violation after native replay. Bounded detection, not a termination proof.",
    "C07": "On each path the reported capacity c is compared with the real allocation for a symbolic count: accepted iff count <= c; memory-only capacity drops by exactly k after committing k; zero-capacity nodes are absent and the total is the saturating sum.",
    "C08": "One inductive step per operation from an arbitrary pre-state satisfying usage = R + w: after alloc/realloc every component equals the sum over live workloads, and operation+rollback restores the pre-state exactly. Covers histories of any length if the invariant is right.",
    "C12": "The real CreateWorkload pipeline (doCreateWorkloads, doGetDeployStrategy with the real AUTO strategy, doDeployWorkloads, doDeployWorkloadsOnNode, doDeployOneWorkload, utils.Txn, lock wrappers) runs against the ledger world under the run-to-completion goroutine model; z3-decided paths prove the stream closes with one failure and nothing created or exactly one message per planned instance, successes name recorded+started workloads on the reported node, failures leave no record/container, no processing marker remains.",
    "C14": "The real CreateWorkload pipeline is interrupted at a symbolic call position (world frozen), then the real calcium WAL handlers run through a model log with Hydro's replay semantics in a fresh Calcium; z3-decided paths prove usage = sum of recorded workloads on every node, no processing marker, every recorded workload has a started container and every container is recorded (except the one created in the instant before the crash and not yet logged).",
    "C15": "FixNodeResource and GetNodeResourceInfo are executed on a node whose recorded usage is arbitrary in every component; z3 proves per path that the stored usage afterwards equals the component-wise sum of the workloads and that a second check reports no differences.",
    "C32": "CalculateRemap is executed on arbitrary node states with every bound/unbound mix; z3 proves the answer covers exactly the unbound workloads with exactly the cores having >= one share base free (all cores if none).",
    "C09": "cobalt.Manager.GetNodesDeployCapacity and mergeCapacity are executed with symbolic plugin answers and a symbolic merge order; z3 proves per path that the offered set is the intersection, capacity the minimum, usage/rate the weighted average (as exact fractions) and that two merge orders give identical results.",
    "C10": "The real ReallocResource / RemoveWorkload / DissociateWorkload (with the real utils.Txn, lock wrappers and node selection) are executed against an abstract ledger world with a symbolic single fault; z3 proves usage = sum of recorded workloads after every outcome, for all symbolic amounts.",
    "C11": "Same executions; when (a part of) the operation reports failure, z3 proves that records, amounts, containers and usage equal the pre-state for every fault position.",
    "C16": "wal.Hydro.Log/Recover/recover/decodeEvent run from real SSA over a model KV; operation sequences and all handler outcomes are symbolic; z3-decided paths prove handlers run only for logged-and-uncommitted events, in logging order, at most once per recovery, removal iff handled or unnecessary, ids strictly increasing.",
    "C24": "utils.MakeWorkloadName / ParseWorkloadName and types.Entrypoint.Validate run on names made of symbolic bytes; z3 proves per path that the parsed application, entrypoint and suffix equal the originals for all byte values, outside the recorded finding (application names starting with '/').",
    "C29": "rpc.toSendLargeFileChunks is executed on a content slice whose LENGTH is a symbolic integer; z3 proves for every length in range that the chunks are consecutive, non-empty, at most 2048 bytes, cover [0,L) exactly and carry size/targets/owner/mode.",
    "C36": "interceptor.NewStreamRetry and retryStream.{SendMsg,RecvMsg,getStream,setStream} are executed against model streams with symbolic per-call outcomes; z3-decided paths prove raw stream for unlisted methods, re-send of the original request on the reopened stream, messages from the newest stream, reopen attempts within Max+1, no retry after context.Canceled.",
    "C30": "The real RunAndWait (lambda closure, processStdStream, doRemoveWorkloadSync -> RemoveWorkload pipeline, WAL create-lambda event) runs against the ledger world under the run-to-completion goroutine model with symbolic engine outcomes for logs and wait; z3-decided paths prove every started workload ends removed (record, container, usage), its last message is the exit code unless logs/wait failed, every log entry is committed and the stream closes (a receive that can never be satisfied is a hang violation).",
    "C31": "docker.makeResourceSetting and (*Engine).VirtualizationUpdateResource are executed with symbolic CPU (1/4096 grid), memory, cpu map and NUMA node; z3 proves cpuset = exactly the allocated cores, cpuset-mems = NUMA node, quota -1 when bound, shares = round(1024*frac), quota = cpu*period when unbound, memory caps.",
    "C17": "utils.Txn and utils.PCR are executed for every outcome vector and caller-cancellation point (symbolic Booleans / choices, complete finite space); z3 decides each branch; assertions: then iff cond ok, rollback exactly once iff a step failed with the right flag, first failure returned, rollback context not cancelled by the caller.",
    "C20": "The lock wrappers (withNodesPodLocked, withNodeOperationLocked, withWorkloadsLocked) and the sequential ReallocResource are executed over symbolic include/id lists and pod assignments with recording locks; the acquisition trace must be strictly ascending within pod locks and within workload locks, pod before workload, and everything released.",
    "C21": "Calcium.filterNodes (with the real utils.Map/sort code) is executed over symbolic include/exclude lists and store orders; the result must contain exactly the wanted distinct nodes, each once. Store half (etcd backend): the real Mercury.GetNodesByPod/doGetNodes runs over a model meta.KV with symbolic labels, test/bypass flags, status keys and filter; z3 proves per path that exactly the labelled nodes that are up and not bypassed (all labelled nodes when all is requested) are returned, each once.",
    "C33": "CalculateRealloc with keep-bind and zero CPU delta is executed for every valid origin cpu map on whole-share cores; z3 proves the new cpu map and NUMA node equal the origin's, outside two recorded findings (fractional core moves; NUMA node changes).",
}
# extensions added after the generator was written (round 15: store halves of C21/C22, watcher half of C26)
for _pid, _e in json.load(open(f'{V}/tools/checks_ext.json')).items():
    cfg[_pid]['runs'] += _e['runs_extra']
    cfg[_pid]['bounds'] = _e['bounds']
    cfg[_pid]['outside'] = _e['outside']
json.dump(cfg, open(f'{V}/checks.json', 'w'), indent=1)
mm = json.load(open(f'{V}/tools/manifest_meta.json'))
for k, t in meta.items():
    mm['checks'][k] = {"text": t}
json.dump(mm, open(f'{V}/tools/manifest_meta.json', 'w'), indent=1)
print("checks:", sorted(cfg))
