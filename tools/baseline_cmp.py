#!/usr/bin/env python3
# dev helper: run `go test -json` on the given packages of /repo (guard off) and
# compare the set of passing tests with /root/.vp/BASELINE.json stable_pass.
import json, subprocess, sys, os
pkgs = sys.argv[1:] or ['./...']
env = dict(os.environ, GOFLAGS='-mod=mod', GOPROXY='off', GOSUMDB='off', GOTOOLCHAIN='local')
out = subprocess.run(['go', 'test', '-json', '-vet=off', '-count=1', '-timeout', '25m'] + pkgs, cwd='/repo', env=env, capture_output=True, text=True).stdout
passed = set()
seen_pkgs = set()
for l in out.splitlines():
    try: e = json.loads(l)
    except Exception: continue
    if e.get('Package'): seen_pkgs.add(e['Package'])
    if e.get('Action') == 'pass' and e.get('Test'):
        passed.add(f"{e['Package']}::{e['Test']}")
base = set(json.load(open('/root/.vp/BASELINE.json'))['stable_pass'])
base = {t for t in base if t.split('::')[0] in seen_pkgs}
missing = sorted(base - passed)
print(f"packages={len(seen_pkgs)} baseline_tests={len(base)} passed_now={len(passed & base)} missing={len(missing)}")
for m in missing: print("  MISSING", m)
sys.exit(1 if missing else 0)
