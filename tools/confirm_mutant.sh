#!/bin/sh
# usage: confirm_mutant.sh <seeded dir>  — confirms in a scratch worktree that the patch compiles, the
# baseline tests of the touched packages still pass, and the demo fails with the patch / passes without.
d=$1
export GOFLAGS=-mod=mod GOPROXY=off GOSUMDB=off GOTOOLCHAIN=local
wt=/tmp/confirm-$(basename $d)
git -C /repo worktree add -q $wt HEAD || exit 2
pkg=$(grep -m1 '^package ' $d/demo_test.go | awk '{print $2}')
case $pkg in
  strategy) dir=strategy;; cpumem) dir=resource/plugins/cpumem;; schedule) dir=resource/plugins/cpumem/schedule;;
  cobalt) dir=resource/cobalt;; calcium) dir=cluster/calcium;; utils) dir=utils;; types) dir=types;; wal) dir=wal;; docker) dir=engine/docker;; interceptor) dir=client/interceptor;; simple) dir=auth/simple;; meta) dir=store/etcdv3/meta;; etcdv3) dir=store/etcdv3;; helium) dir=discovery/helium;; selfmon) dir=selfmon;; rpc) dir=rpc;; *) dir=$pkg;;
esac
tests=$(grep -o '^func Test[A-Za-z0-9_]*' $d/demo_test.go | sed 's/func //' | paste -sd'|')
cp $d/demo_test.go $wt/$dir/zz_demo_test.go
( cd $wt && timeout 600 go test -count=1 -run "^($tests)\$" ./$dir/ > /tmp/confirm_clean.log 2>&1 ); clean=$?
git -C $wt apply $d/patch.diff || { echo "patch does not apply"; }
( cd $wt && go build ./... > /tmp/confirm_build.log 2>&1 ); build=$?
( cd $wt && timeout 600 go test -count=1 -run "^($tests)\$" ./$dir/ > /tmp/confirm_mut.log 2>&1 ); mut=$?
rm $wt/$dir/zz_demo_test.go
touched=$(grep '^+++ b/' $d/patch.diff | sed 's|+++ b/||' | xargs -n1 dirname | sort -u | sed 's|^|./|;s|$|/|' | paste -sd' ')
( cd $wt && python3 - "$touched" <<'PY'
import json, subprocess, sys, os
pkgs = sys.argv[1].split()
env = dict(os.environ)
out = subprocess.run(['go','test','-json','-vet=off','-count=1','-timeout','25m']+pkgs, env=env, capture_output=True, text=True).stdout
passed=set(); seen=set()
for l in out.splitlines():
    try: e=json.loads(l)
    except Exception: continue
    if e.get('Package'): seen.add(e['Package'])
    if e.get('Action')=='pass' and e.get('Test'): passed.add(f"{e['Package']}::{e['Test']}")
base={t for t in json.load(open('/root/.vp/BASELINE.json'))['stable_pass'] if t.split('::')[0] in seen}
print("baseline tests in touched packages:", len(base), "still passing:", len(base&passed), "missing:", sorted(base-passed))
PY
) > /tmp/confirm_base.log 2>&1
echo "$(basename $d): build_with_patch=$build demo_without_patch_exit=$clean (0=pass) demo_with_patch_exit=$mut (non-zero=fails) ; $(cat /tmp/confirm_base.log | tail -1)"
git -C /repo worktree remove --force $wt
