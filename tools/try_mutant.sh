#!/bin/sh
# usage: try_mutant.sh <patch.diff> <check id>...   applies the patch to a SCRATCH worktree of /repo
# (never to /repo itself), runs the checks (quick) against it, removes the change again
patch=$1; shift
wt=/tmp/repo-mut
[ -d $wt ] || git -C /repo worktree add -q $wt HEAD || exit 2
git -C $wt checkout -q --detach $(git -C /repo rev-parse HEAD) 2>/dev/null
git -C $wt checkout -- . ; git -C $wt clean -fdq
git -C $wt apply "$patch" || { echo "patch does not apply"; exit 2; }
for c in "$@"; do
  VERIF_REPO=$wt /verif/check $c --tier ${TIER:-quick} > /tmp/mut_$c.log 2>&1
  echo "  $c exit=$? : $(grep -c '^VIOLATION' /tmp/mut_$c.log) violation(s); $(grep '^  violated' /tmp/mut_$c.log | head -2 | cut -c1-200)"
  grep "^INCONCLUSIVE" /tmp/mut_$c.log | head -2 | cut -c1-300
done
git -C $wt checkout -- .
