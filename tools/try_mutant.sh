#!/bin/sh
# usage: try_mutant.sh <patch.diff> <check id>...   applies the patch to /repo, runs the checks (quick), undoes it
patch=$1; shift
git -C /repo status --short | grep -q . && { echo "repo dirty"; exit 2; }
git -C /repo apply "$patch" || { echo "patch does not apply"; exit 2; }
for c in "$@"; do
  /verif/check $c --tier ${TIER:-quick} > /tmp/mut_$c.log 2>&1
  echo "  $c exit=$? : $(grep -c '^VIOLATION' /tmp/mut_$c.log) violation(s); $(grep '^  violated' /tmp/mut_$c.log | head -2 | cut -c1-200)"
  grep "^INCONCLUSIVE" /tmp/mut_$c.log | head -2 | cut -c1-300
done
git -C /repo checkout -- .
