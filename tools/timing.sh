#!/bin/sh
# usage: timing.sh <dir> <Harness> <arg>...   (dev helper: one summary block per shape)
dir=$1; h=$2; shift 2
for a in "$@"; do
  timeout 900 /verif/bin/gosym run $GOSYM_FLAGS --dir $dir "$h@$a" 2>&1 | grep -v "^loaded\|cover" | cut -c1-300
done
