#!/bin/sh
exit 0
