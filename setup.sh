#!/bin/sh
# Build the gosym engine offline from files on disk (x/tools v0.29.0 from the module cache).
set -e
cd /verif/gosym
export GOFLAGS=-mod=mod GOPROXY=off GOSUMDB=off GOTOOLCHAIN=local
mkdir -p /verif/bin /verif/evidence /verif/replays
go build -o /verif/bin/gosym .
echo "gosym built"
