package interp

// Native models of encoding/json (opaque deep-copy tokens), mapstructure.Decode
// (structural conversion by `mapstructure` tag) and RawParams number accessors.
// DESIGN.md §2.4: JSON number fidelity and the Sprintf+Parse round trip of
// RawParams are trusted; the no-aliasing (deep copy) semantics are preserved.

import (
	"fmt"
	"go/types"
	"reflect"
	"strconv"
	"strings"

	"golang.org/x/tools/go/ssa"
)

type jsonEntry struct {
	v value
	t types.Type
}

// deepCopy copies v (of type t).  With jsonMode it keeps only what encoding/json
// transports: fields tagged json:"-" and unexported fields become zero values.
func deepCopy(v value, t types.Type) value { return deepCopyM(v, t, false) }

func deepCopyM(v value, t types.Type, jsonMode bool) value {
	switch tt := t.Underlying().(type) {
	case *types.Pointer:
		p, ok := v.(*value)
		if !ok || p == nil {
			return v
		}
		c := deepCopyM(*p, tt.Elem(), jsonMode)
		return &c
	case *types.Struct:
		s := v.(structure)
		out := make(structure, len(s))
		for k := range s {
			if jsonMode && (!tt.Field(k).Exported() || strings.HasPrefix(reflect.StructTag(tt.Tag(k)).Get("json"), "-")) {
				out[k] = zero(tt.Field(k).Type())
				continue
			}
			out[k] = deepCopyM(s[k], tt.Field(k).Type(), jsonMode)
		}
		return out

	case *types.Map:
		switch m := v.(type) {
		case map[value]value:
			if m == nil {
				return m
			}
			out := make(map[value]value, len(m))
			for k, e := range m {
				out[k] = deepCopyM(e, tt.Elem(), jsonMode)
			}
			return out
		case *hashmap:
			if m == nil {
				return m
			}
			unsupported("json: map with non-basic keys")
		}
		return v
	case *types.Slice:
		s, ok := v.([]value)
		if !ok || s == nil {
			return v
		}
		out := make([]value, len(s))
		for k := range s {
			out[k] = deepCopyM(s[k], tt.Elem(), jsonMode)
		}
		return out
	case *types.Array:
		a := v.(array)
		out := make(array, len(a))
		for k := range a {
			out[k] = deepCopyM(a[k], tt.Elem(), jsonMode)
		}
		return out
	case *types.Interface:
		f := v.(iface)
		if f.t == nil {
			return f
		}
		return iface{t: f.t, v: deepCopyM(f.v, f.t, jsonMode)}
	}
	return v
}

func bytesOf(s string) []value {
	out := make([]value, len(s))
	for k := 0; k < len(s); k++ {
		out[k] = s[k]
	}
	return out
}

func stringOf(b []value) string {
	var sb strings.Builder
	for _, x := range b {
		sb.WriteByte(x.(byte))
	}
	return sb.String()
}

const jsonMagic = "\x00verif-json:"

func (i *interpreter) jsonMarshal(arg value) value {
	f := arg.(iface)
	if f.t == nil {
		return tuple{bytesOf("null"), iface{}}
	}
	i.jsonHeap = append(i.jsonHeap, jsonEntry{deepCopyM(f.v, f.t, true), f.t})
	return tuple{bytesOf(fmt.Sprintf("%s%d", jsonMagic, len(i.jsonHeap)-1)), iface{}}
}

func (i *interpreter) jsonUnmarshal(caller *frame, data value, out value) value {
	var s string
	switch d := data.(type) {
	case []value:
		s = stringOf(d)
	case string:
		s = d
	}
	if !strings.HasPrefix(s, jsonMagic) {
		unsupported("json.Unmarshal of bytes that were not produced by the modelled json.Marshal: %q", s)
	}
	n, _ := strconv.Atoi(strings.TrimPrefix(s, jsonMagic))
	ent := i.jsonHeap[n]
	o := out.(iface)
	pt, ok := o.t.Underlying().(*types.Pointer)
	if !ok {
		unsupported("json.Unmarshal into non-pointer")
	}
	cell := o.v.(*value)
	src, srcT := ent.v, ent.t
	// Marshal(ptr) / Unmarshal(ptr): compare pointees
	if sp, ok := srcT.Underlying().(*types.Pointer); ok && !types.Identical(srcT, pt.Elem()) {
		p := src.(*value)
		if p == nil {
			return iface{}
		}
		src, srcT = *p, sp.Elem()
	}
	if !types.Identical(srcT, pt.Elem()) {
		unsupported("json round trip between different types %v -> %v", srcT, pt.Elem())
	}
	*cell = deepCopy(src, srcT)
	return iface{}
}

// ---- mapstructure.Decode ----

func msTagName(st *types.Struct, k int) (string, bool) {
	tag := reflect.StructTag(st.Tag(k)).Get("mapstructure")
	name := st.Field(k).Name()
	if tag != "" {
		parts := strings.Split(tag, ",")
		if parts[0] == "-" {
			return "", false
		}
		if parts[0] != "" {
			name = parts[0]
		}
	}
	return name, st.Field(k).Exported()
}

func isNilValue(v value) bool {
	switch x := v.(type) {
	case nil:
		return true
	case iface:
		return x.t == nil
	case *value:
		return x == nil
	case map[value]value:
		return x == nil
	case []value:
		return x == nil
	}
	return false
}

// msConv converts src (static or dynamic type srcT) into a value of type dstT,
// following mapstructure v1.5.0's default (non-weak) decoding rules.
func msConv(src value, srcT types.Type, dstT types.Type, cur value) value {
	// unwrap interfaces on the source side
	for {
		f, ok := src.(iface)
		if !ok {
			break
		}
		if f.t == nil {
			return cur // nil input leaves the destination untouched
		}
		src, srcT = f.v, f.t
	}
	switch dt := dstT.Underlying().(type) {
	case *types.Interface:
		return iface{t: srcT, v: src}
	case *types.Pointer:
		if p, ok := src.(*value); ok && p == nil {
			return (*value)(nil)
		}
		var curElem value
		if cp, ok := cur.(*value); ok && cp != nil {
			curElem = *cp
		} else {
			curElem = zero(dt.Elem())
		}
		// mapstructure decodes through pointers on both sides
		if sp, ok := srcT.Underlying().(*types.Pointer); ok {
			if p := src.(*value); p != nil {
				c := msConv(*p, sp.Elem(), dt.Elem(), curElem)
				return &c
			}
		}
		c := msConv(src, srcT, dt.Elem(), curElem)
		return &c
	case *types.Struct:
		if sp, ok := srcT.Underlying().(*types.Pointer); ok {
			p := src.(*value)
			if p == nil {
				return cur
			}
			return msConv(*p, sp.Elem(), dstT, cur)
		}
		if types.Identical(srcT, dstT) {
			s := src.(structure)
			out := make(structure, len(s))
			copy(out, s)
			return out
		}
		out := make(structure, dt.NumFields())
		if cs, ok := cur.(structure); ok {
			copy(out, cs)
		} else {
			for k := 0; k < dt.NumFields(); k++ {
				out[k] = zero(dt.Field(k).Type())
			}
		}
		switch st := srcT.Underlying().(type) {
		case *types.Map:
			m, ok := src.(map[value]value)
			if !ok {
				unsupported("mapstructure: struct from map with non-string keys")
			}
			for k := 0; k < dt.NumFields(); k++ {
				name, exported := msTagName(dt, k)
				if !exported {
					continue
				}
				ev, found := m[name]
				if !found {
					for mk, mv := range m {
						if ks, ok := mk.(string); ok && strings.EqualFold(ks, name) {
							ev, found = mv, true
						}
					}
				}
				if !found || isNilValue(ev) {
					continue
				}
				out[k] = msConv(ev, st.Elem(), dt.Field(k).Type(), out[k])
			}
			return out
		case *types.Struct:
			// struct -> different struct: via field names
			s := src.(structure)
			for k := 0; k < dt.NumFields(); k++ {
				name, exported := msTagName(dt, k)
				if !exported {
					continue
				}
				for j := 0; j < st.NumFields(); j++ {
					sn, _ := msTagName(st, j)
					if sn == name || strings.EqualFold(sn, name) {
						out[k] = msConv(s[j], st.Field(j).Type(), dt.Field(k).Type(), out[k])
					}
				}
			}
			return out
		}
		unsupported("mapstructure: cannot decode %v into struct %v", srcT, dstT)
	case *types.Map:
		if sp, ok := srcT.Underlying().(*types.Pointer); ok {
			p := src.(*value)
			if p == nil {
				return cur
			}
			return msConv(*p, sp.Elem(), dstT, cur)
		}
		switch st := srcT.Underlying().(type) {
		case *types.Map:
			m, ok := src.(map[value]value)
			if !ok {
				unsupported("mapstructure: map with non-basic keys")
			}
			if m == nil {
				return cur
			}
			out := make(map[value]value, len(m))
			if cm, ok := cur.(map[value]value); ok && cm != nil {
				for k, v := range cm {
					out[k] = v
				}
			}
			for k, v := range m {
				out[k] = msConv(v, st.Elem(), dt.Elem(), zero(dt.Elem()))
			}
			return out
		case *types.Struct:
			s := src.(structure)
			out := make(map[value]value, len(s))
			if cm, ok := cur.(map[value]value); ok && cm != nil {
				for k, v := range cm {
					out[k] = v
				}
			}
			for j := 0; j < st.NumFields(); j++ {
				name, exported := msTagName(st, j)
				if !exported {
					continue
				}
				ft := st.Field(j).Type()
				fv := s[j]
				// pointer-to-struct fields are dereferenced (v1.5.0), nested structs become maps
				if fp, ok := ft.Underlying().(*types.Pointer); ok {
					if _, isStruct := fp.Elem().Underlying().(*types.Struct); isStruct {
						if p := fv.(*value); p != nil {
							fv, ft = *p, fp.Elem()
						}
					}
				}
				if _, isStruct := ft.Underlying().(*types.Struct); isStruct {
					nestedT := types.NewMap(dt.Key(), dt.Elem())
					out[name] = wrapFor(dt.Elem(), msConv(fv, ft, nestedT, nil), nestedT)
					continue
				}
				// other values are stored as they are (typed, aliased)
				out[name] = wrapFor(dt.Elem(), fv, ft)
			}
			return out
		}
		unsupported("mapstructure: cannot decode %v into map %v", srcT, dstT)
	case *types.Slice:
		st, ok := srcT.Underlying().(*types.Slice)
		if !ok {
			unsupported("mapstructure: cannot decode %v into slice %v", srcT, dstT)
		}
		s := src.([]value)
		if s == nil {
			return cur
		}
		out := make([]value, len(s))
		for k := range s {
			out[k] = msConv(s[k], st.Elem(), dt.Elem(), zero(dt.Elem()))
		}
		return out
	case *types.Basic:
		sb, ok := srcT.Underlying().(*types.Basic)
		if !ok {
			unsupported("mapstructure: cannot decode %v into %v", srcT, dstT)
		}
		switch {
		case dt.Info()&types.IsString != 0 && sb.Info()&types.IsString != 0:
			return src
		case dt.Info()&types.IsBoolean != 0 && sb.Info()&types.IsBoolean != 0:
			return src
		case dt.Info()&types.IsNumeric != 0 && sb.Info()&types.IsNumeric != 0:
			if dt.Kind() == sb.Kind() {
				return src
			}
			return conv(dstT, srcT, src)
		}
		unsupported("mapstructure: cannot decode basic %v into %v", srcT, dstT)
	}
	unsupported("mapstructure: unsupported destination type %v", dstT)
	return nil
}

// wrapFor boxes v (of type t) when the destination element type is an interface.
func wrapFor(elemT types.Type, v value, t types.Type) value {
	if _, ok := elemT.Underlying().(*types.Interface); ok {
		if f, isIface := v.(iface); isIface {
			return f
		}
		return iface{t: t, v: v}
	}
	return v
}

func msDecode(in value, out value) value {
	o := out.(iface)
	pt, ok := o.t.Underlying().(*types.Pointer)
	if !ok {
		unsupported("mapstructure.Decode: result must be a pointer")
	}
	cell := o.v.(*value)
	*cell = msConv(in, nil, pt.Elem(), *cell)
	return iface{}
}

// ---- RawParams accessors ----

func rawParamNumber(recv value, key string) (value, types.Type, bool) {
	m, _ := recv.(map[value]value)
	v, ok := m[key]
	if !ok {
		return nil, nil, false
	}
	f, isIface := v.(iface)
	if !isIface {
		return v, nil, true
	}
	return f.v, f.t, true
}

func installDataStubs(t *StubTable) {
	t.Native["encoding/json.Marshal"] = func(i *interpreter, caller *frame, fn *ssa.Function, args []value) value {
		return i.jsonMarshal(args[0])
	}
	t.Native["encoding/json.MarshalIndent"] = func(i *interpreter, caller *frame, fn *ssa.Function, args []value) value {
		return i.jsonMarshal(args[0])
	}
	t.Native["encoding/json.Unmarshal"] = func(i *interpreter, caller *frame, fn *ssa.Function, args []value) value {
		return i.jsonUnmarshal(caller, args[0], args[1])
	}
	t.Native["github.com/mitchellh/mapstructure.Decode"] = func(i *interpreter, caller *frame, fn *ssa.Function, args []value) value {
		return msDecode(args[0], args[1])
	}
	const rp = "(github.com/projecteru2/core/resource/types.RawParams)."
	t.Native[rp+"Float64"] = func(i *interpreter, caller *frame, fn *ssa.Function, args []value) value {
		v, _, ok := rawParamNumber(args[0], args[1].(string))
		if !ok {
			return float64(0)
		}
		switch x := v.(type) {
		case float64:
			return x
		case symv:
			if x.k == kF64 {
				return x
			}
			if x.k == kInt {
				return symConv(types.Typ[types.Float64], x)
			}
		case string:
			f, _ := strconv.ParseFloat(x, 64)
			return f
		case nil:
			return float64(0)
		}
		if _, lit, ok := concIntLit(v); ok {
			f, _ := strconv.ParseFloat(strings.Trim(strings.ReplaceAll(strings.ReplaceAll(lit, "(- ", "-"), ")", ""), " "), 64)
			return f
		}
		return float64(0)
	}
	intAcc := func(dst types.BasicKind) func(i *interpreter, caller *frame, fn *ssa.Function, args []value) value {
		return func(i *interpreter, caller *frame, fn *ssa.Function, args []value) value {
			zeroV := goIntOf(dst, 0)
			v, _, ok := rawParamNumber(args[0], args[1].(string))
			if !ok {
				return zeroV
			}
			switch x := v.(type) {
			case float64:
				n, _ := strconv.ParseInt(fmt.Sprintf("%.0f", x), 10, 64)
				return goIntOf(dst, n)
			case symv:
				if x.k == kInt {
					return symConv(types.Typ[dst], x)
				}
				unsupported("RawParams.Int64 of a symbolic non-integer")
			case string:
				n, _ := strconv.ParseInt(x, 10, 64)
				return goIntOf(dst, n)
			case nil:
				return zeroV
			}
			if _, _, ok := concIntLit(v); ok {
				return goIntOf(dst, asInt64(v))
			}
			return zeroV
		}
	}
	t.Native[rp+"Int64"] = intAcc(types.Int64)
	t.Native[rp+"Int"] = intAcc(types.Int)
}

func goIntOf(bk types.BasicKind, n int64) value {
	if bk == types.Int {
		return int(n)
	}
	return n
}
