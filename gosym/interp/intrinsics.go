package interp

// Harness intrinsics (v*) and the stub table.

import (
	"fmt"
	"go/token"
	"go/types"
	"math/big"
	"strings"

	"golang.org/x/tools/go/ssa"
)

type nativeFn func(args []value) value

// StubTable maps ssa function names (fn.String()) to replacements.
type StubTable struct {
	Redirect map[string]*ssa.Function // Go-level models (interpreted)
	ZeroPkgs map[string]bool          // every function of the package returns zero values
	ZeroFns  map[string]bool
	Native   map[string]func(i *interpreter, caller *frame, fn *ssa.Function, args []value) value
}

func NewStubTable() *StubTable {
	t := &StubTable{
		Redirect: map[string]*ssa.Function{},
		ZeroPkgs: map[string]bool{
			"github.com/projecteru2/core/log":     true,
			"github.com/sanity-io/litter":         true,
			"github.com/projecteru2/core/metrics": true,
			"github.com/getsentry/sentry-go":      true,
			"github.com/alphadose/haxmap":         true,
		},
		ZeroFns: map[string]bool{},
		Native:  map[string]func(i *interpreter, caller *frame, fn *ssa.Function, args []value) value{},
	}
	installDataStubs(t)
	installAtomicStubs(t)
	installSyncMapStubs(t)
	installStringsStubs(t)
	installSymStringStubs(t)
	t.Native["sort.Slice"] = func(i *interpreter, caller *frame, fn *ssa.Function, args []value) value {
		return sortSlice(i, caller, args)
	}
	t.Native["sort.SliceStable"] = func(i *interpreter, caller *frame, fn *ssa.Function, args []value) value {
		return sortSliceStable(i, caller, args)
	}
	t.Native["fmt.Sprintf"] = func(i *interpreter, caller *frame, fn *ssa.Function, args []value) value {
		return nativeSprintf(i, caller, args[0].(string), args[1].([]value))
	}
	t.Native["fmt.Sprint"] = func(i *interpreter, caller *frame, fn *ssa.Function, args []value) value {
		var parts []string
		for _, a := range args[0].([]value) {
			parts = append(parts, fmt.Sprint(printable(i, caller, a)))
		}
		return strings.Join(parts, " ")
	}
	for _, n := range []string{"math.Round", "math.Floor", "math.Ceil", "math.Trunc"} {
		mode := strings.ToLower(strings.TrimPrefix(n, "math."))
		t.Native[n] = func(i *interpreter, caller *frame, fn *ssa.Function, args []value) value {
			if sx, ok := args[0].(symv); ok {
				if sx.bad != "" {
					return sx
				}
				if sx.g != nil {
					if sx.g.den != nil {
						unsupported("rounding of an inexact quotient")
					}
					return gridRound(sx, mode)
				}
				rm := map[string]string{"round": "RNA", "floor": "RTN", "ceil": "RTP", "trunc": "RTZ"}[mode]
				return sx.ex.name(symv{ex: sx.ex, k: kF64, bk: types.Float64, e: "(fp.roundToIntegral " + rm + " " + sx.e + ")"})
			}
			return callSSAraw(i, caller, token.NoPos, fn, args, nil)
		}
	}
	t.Native["math.Modf"] = func(i *interpreter, caller *frame, fn *ssa.Function, args []value) value {
		sx, ok := args[0].(symv)
		if !ok {
			return callSSAraw(i, caller, token.NoPos, fn, args, nil)
		}
		if sx.g == nil || sx.g.den != nil || sx.bad != "" {
			unsupported("math.Modf of a non-grid symbolic float")
		}
		ip := gridRound(sx, "trunc")
		return tuple{ip, symBinop(token.SUB, nil, sx, ip)}
	}
	t.Native["math.Abs"] = func(i *interpreter, caller *frame, fn *ssa.Function, args []value) value {
		if sx, ok := args[0].(symv); ok {
			if sx.g != nil {
				neg := symBinop(token.LSS, nil, sx, float64(0)).(symv)
				if sx.ex.decide(neg) {
					return symUnop(token.SUB, sx)
				}
				return sx
			}
			return symv{ex: sx.ex, k: kF64, bk: types.Float64, e: "(fp.abs " + sx.e + ")"}
		}
		return ext۰math۰Abs(nil, args)
	}
	return t
}

func callMethodByName(i *interpreter, caller *frame, recv iface, name string) (value, bool) {
	if recv.t == nil {
		return nil, false
	}
	ms := i.prog.MethodSets.MethodSet(recv.t)
	for k := 0; k < ms.Len(); k++ {
		sel := ms.At(k)
		if sel.Obj().Name() == name {
			f := i.prog.MethodValue(sel)
			if f == nil {
				return nil, false
			}
			return call(i, caller, token.NoPos, f, []value{recv.v}), true
		}
	}
	return nil, false
}

func printable(i *interpreter, caller *frame, a value) interface{} {
	switch a := a.(type) {
	case iface:
		if a.t == nil {
			return nil
		}
		if _, ok := a.v.(symv); ok {
			return "<sym>"
		}
		if r, ok := callMethodByName(i, caller, a, "Error"); ok {
			if s, ok := r.(string); ok {
				return s
			}
		}
		if r, ok := callMethodByName(i, caller, a, "String"); ok {
			if s, ok := r.(string); ok {
				return s
			}
		}
		return printable(i, caller, a.v)
	case symv:
		return "<sym>"
	case symString:
		return "<symbolic string>"
	case bool, string, int, int8, int16, int32, int64, uint, uint8, uint16, uint32, uint64, uintptr, float32, float64:
		return a
	case nil:
		return nil
	}
	return toString(a)
}

func nativeSprintf(i *interpreter, caller *frame, format string, args []value) string {
	conv := make([]interface{}, len(args))
	for k, a := range args {
		conv[k] = printable(i, caller, a)
	}
	return fmt.Sprintf(strings.ReplaceAll(format, "%w", "%v"), conv...)
}

func symIte(ex *Explorer, c value, a, b value) value {
	cb, ok := c.(symv)
	if !ok {
		if c.(bool) {
			return a
		}
		return b
	}
	var peer *symv
	if sa, ok := a.(symv); ok {
		peer = &sa
	} else if sb, ok := b.(symv); ok {
		peer = &sb
	}
	if peer == nil {
		// both concrete: lift using a's type
		if fa, ok := a.(float64); ok {
			_ = fa
			if ex.S.FloatMode == "grid" {
				g := gridConst(ex, 0)
				peer = &g
			}
		}
	}
	sa, sb := toSym(ex, a, peer), toSym(ex, b, peer)
	r := sa
	if sa.g != nil || sb.g != nil {
		s := sa.g.scale
		if sb.g.scale > s {
			s = sb.g.scale
		}
		r.g = &grid{coef: big.NewInt(1), scale: s}
		r.e = "(ite " + cb.e + " " + gridTerm(sa, s-sa.g.scale) + " " + gridTerm(sb, s-sb.g.scale) + ")"
		return ex.name(r)
	}
	r.e = "(ite " + cb.e + " " + sa.e + " " + sb.e + ")"
	return ex.name(r)
}

// intrinsic dispatches harness support functions.  ok=false => not an intrinsic.
func (ex *Explorer) intrinsic(caller *frame, name string, args []value) (value, bool) {
	asBool := func(v value) symv { return toSym(ex, v, nil) }
	switch name {
	case "vInt", "vInt64":
		nm := args[0].(string)
		bk := types.Int
		if name == "vInt64" {
			bk = types.Int64
		}
		if _, ok := ex.declKind[nm]; ok {
			panic(pathAbort{"harness", "input declared twice: " + nm})
		}
		if ex.S.FloatMode == "ieee" {
			// integers of IEEE harnesses live in the bit-vector theory
			v := ex.declare(nm, symv{k: kInt, bk: bk, bv: "?"})
			ex.assertTerm("(and (bvsge " + v.bv + " " + bvLit(big.NewInt(asInt64(args[1]))) + ") (bvsle " + v.bv + " " + bvLit(big.NewInt(asInt64(args[2]))) + "))")
			return v, true
		}
		v := ex.declare(nm, symv{k: kInt, bk: bk})
		_, lo, _ := concIntLit(args[1])
		_, hi, _ := concIntLit(args[2])
		ex.assertTerm("(and (>= " + v.e + " " + lo + ") (<= " + v.e + " " + hi + "))")
		return v, true
	case "vBool":
		return ex.declare(args[0].(string), symv{k: kBool}), true
	case "vF64":
		if ex.S.FloatMode == "grid" {
			panic(pathAbort{"harness", "vF64 (ieee input) in a grid-mode harness"})
		}
		return ex.declare(args[0].(string), symv{k: kF64, bk: types.Float64}), true
	case "vGrid":
		// vGrid(name, scale, lo, hi): value m*2^-scale, lo <= m <= hi
		nm := args[0].(string)
		sc := args[1].(int)
		v := ex.declare(nm, symv{k: kF64, bk: types.Float64, g: &grid{coef: big.NewInt(1), scale: sc}})
		ex.assertTerm(fmt.Sprintf("(and (>= %s %s) (<= %s %s))", v.e, ilit(int64(args[2].(int))), v.e, ilit(int64(args[3].(int)))))
		return v, true
	case "vChoose":
		nm := args[0].(string)
		n := args[1].(int)
		v := ex.declare(nm, symv{k: kInt, bk: types.Int})
		ex.assertTerm(fmt.Sprintf("(and (>= %s 0) (< %s %d))", v.e, v.e, n))
		return ex.concretize(v), true
	case "vConcrete":
		if sv, ok := args[0].(symv); ok {
			return ex.concretize(sv), true
		}
		return args[0], true
	case "vAssume":
		c, ok := args[0].(symv)
		if !ok {
			if !args[0].(bool) {
				panic(pathAbort{"assume", "assumption false"})
			}
			return nil, true
		}
		ex.assertTerm(c.e)
		if len(ex.taken) >= len(ex.prefix) { // beyond the replayed prefix: check feasibility
			if r := ex.checkPop(""); r == "unsat" {
				panic(pathAbort{"assume", "assumption infeasible"})
			}
		}
		return nil, true
	case "vAssert":
		label := args[0].(string)
		if !ex.S.labelActive(label) {
			return nil, true
		}
		if c, ok := args[1].(symv); ok {
			ex.asserted = append(ex.asserted, struct{ label, term string }{label, c.e})
			ex.reportFailing(label, "assert", "", "(not "+c.e+")")
		} else if !args[1].(bool) {
			ex.asserted = append(ex.asserted, struct{ label, term string }{label, "false"})
			ex.reportFailing(label, "assert", "condition concretely false", "true")
		} else {
			ex.discharged(label)
		}
		return nil, true
	case "vCover":
		label := args[0].(string)
		s := ex.S
		s.mu.Lock()
		s.CoverDecl[label] = true
		done := s.Covers[label]
		s.mu.Unlock()
		if done {
			return nil, true
		}
		hit := false
		if c, ok := args[1].(symv); ok {
			hit = ex.checkPop(c.e) == "sat"
		} else {
			hit = args[1].(bool)
		}
		if hit {
			s.mu.Lock()
			s.Covers[label] = true
			s.mu.Unlock()
		}
		return nil, true
	case "vKnown":
		id := args[0].(string)
		c := asBool(args[1])
		ex.regions = append(ex.regions, struct{ id, e string }{id, c.e})
		return nil, true
	case "vObserve":
		label := args[0].(string)
		v := args[1]
		if f, ok := v.(iface); ok {
			v = f.v
		}
		if sv, ok := v.(symv); ok {
			if sv.k == kF64 || sv.bad != "" {
				return nil, true
			}
			ex.obs = append(ex.obs, struct{ label, term string }{label, sv.e})
		} else {
			ex.obsConc[label] = fmt.Sprint(printable(ex.i, caller, v))
		}
		return nil, true
	case "vAnd":
		return symBinopB(ex, "and", args[0], args[1]), true
	case "vOr":
		return symBinopB(ex, "or", args[0], args[1]), true
	case "vImplies":
		return symBinopB(ex, "=>", args[0], args[1]), true
	case "vNot":
		if b, ok := args[0].(bool); ok {
			return !b, true
		}
		return symUnop(token.NOT, args[0].(symv)), true
	case "vIte", "vIteF":
		return symIte(ex, args[0], args[1], args[2]), true
	case "vMin":
		c := binop(token.LSS, nil, args[0], args[1])
		return symIte(ex, c, args[0], args[1]), true
	case "vMax":
		c := binop(token.GTR, nil, args[0], args[1])
		return symIte(ex, c, args[0], args[1]), true
	case "vUnsupported":
		unsupported("harness: %s", args[0].(string))
	case "vStr":
		// vStr(name, n): a string of n symbolic ASCII bytes (1..127)
		return ex.newSymString(args[0].(string), args[1].(int)), true
	case "vBytes":
		// vBytes(name, maxLen): an abstract []byte of symbolic length in [0,maxLen]
		nm := args[0].(string)
		v := ex.declare(nm+"_len", symv{k: kInt, bk: types.Int})
		ex.assertTerm(fmt.Sprintf("(and (>= %s 0) (<= %s %d))", v.e, v.e, args[1].(int)))
		ex.sliceN++
		return symSlice{ex: ex, base: ex.sliceN, off: 0, ln: v, capv: v}, true
	case "vSliceOffset":
		// vSliceOffset(base, chunk): offset of chunk inside base
		b, ok1 := args[0].(symSlice)
		c, ok2 := args[1].(symSlice)
		if !ok1 || !ok2 || b.base != c.base {
			panic(pathAbort{"harness", "vSliceOffset: not sub-slices of one abstract slice"})
		}
		return binop(token.SUB, nil, c.off, b.off), true
	case "vNoSample":
		// the native behaviour on this path depends on Go's random map order:
		// do not use it for translator validation
		ex.noSample = true
		return nil, true
	case "vIsSymbolic":
		return true, true
	case "vHint":
		// vHint(key, value): a concrete note for the native replay of this path (e.g. which call
		// site the positional fault hit), delivered with the solver's model
		if ex.hints == nil {
			ex.hints = map[string]string{}
		}
		ex.hints[args[0].(string)] = args[1].(string)
		return nil, true
	case "vHintGet":
		return "", true // hints only exist in native replays
	case "vExpireTimeouts":
		if ex.S.ModelPkg != nil {
			if f := ex.S.ModelPkg.Func("ExpireTimeouts"); f != nil {
				call(ex.i, caller, token.NoPos, f, nil)
			}
		}
		return nil, true
	case "vFieldInt":
		// vFieldInt(x any, name string) int64: an integer field of a struct value, exported or not
		// (natively: reflect).  Lets a harness model read what a library keeps private.
		x := args[0]
		if f, ok := x.(iface); ok {
			st, ok := f.t.Underlying().(*types.Struct)
			if !ok {
				panic(pathAbort{"harness", "vFieldInt: not a struct value"})
			}
			sv, _ := f.v.(structure)
			for k := 0; k < st.NumFields(); k++ {
				if st.Field(k).Name() == args[1].(string) {
					switch n := sv[k].(type) {
					case int64:
						return n, true
					case int:
						return int64(n), true
					case int32:
						return int64(n), true
					case uint8:
						return int64(n), true
					case bool:
						if n {
							return int64(1), true
						}
						return int64(0), true
					case symv:
						return symConv(types.Typ[types.Int64], n), true
					}
					panic(pathAbort{"harness", "vFieldInt: field is not an integer"})
				}
			}
		}
		panic(pathAbort{"harness", "vFieldInt: no such field"})
	case "vYield":
		ex.i.yield()
		return nil, true
	case "vBlockUntil":
		f := args[0]
		ex.i.block("vBlockUntil", func() bool {
			switch r := call(ex.i, caller, token.NoPos, f, nil).(type) {
			case bool:
				return r
			case symv:
				return ex.decide(r)
			}
			return false
		})
		return nil, true
	case "vDrain":
		// lazy schedule: let every queued goroutine run now
		ex.i.drain()
		return nil, true
	}
	return nil, false
}

func symBinopB(ex *Explorer, op string, x, y value) value {
	xb, xc := x.(bool)
	yb, yc := y.(bool)
	if xc && yc {
		switch op {
		case "and":
			return xb && yb
		case "or":
			return xb || yb
		default:
			return !xb || yb
		}
	}
	// short-circuit on concrete operands
	if xc {
		switch op {
		case "and":
			if !xb {
				return false
			}
			return y
		case "or":
			if xb {
				return true
			}
			return y
		default:
			if !xb {
				return true
			}
			return y
		}
	}
	if yc {
		switch op {
		case "and":
			if !yb {
				return false
			}
			return x
		case "or":
			if yb {
				return true
			}
			return x
		default:
			if yb {
				return true
			}
			return symUnop(token.NOT, x.(symv))
		}
	}
	a, b := x.(symv), y.(symv)
	return ex.name(mkBool(ex, "("+op+" "+a.e+" "+b.e+")"))
}

// sortSlice runs the real sort.pdqsort_func SSA with a native swapper.
func sortSlice(i *interpreter, caller *frame, args []value) value {
	x := args[0].(iface).v.([]value)
	less := args[1]
	n := len(x)
	swap := nativeFn(func(a []value) value {
		p, q := a[0].(int), a[1].(int)
		x[p], x[q] = x[q], x[p]
		return nil
	})
	sortPkg := i.prog.ImportedPackage("sort")
	fn := sortPkg.Func("pdqsort_func")
	limit := 0
	for m := uint(n); m != 0; m >>= 1 {
		limit++
	}
	callSSA(i, caller, token.NoPos, fn, []value{structure{less, swap}, 0, n, limit}, nil)
	return nil
}

func sortSliceStable(i *interpreter, caller *frame, args []value) value {
	x := args[0].(iface).v.([]value)
	less := args[1]
	swap := nativeFn(func(a []value) value {
		p, q := a[0].(int), a[1].(int)
		x[p], x[q] = x[q], x[p]
		return nil
	})
	fn := i.prog.ImportedPackage("sort").Func("stable_func")
	callSSA(i, caller, token.NoPos, fn, []value{structure{less, swap}, len(x)}, nil)
	return nil
}

func stubZero(fn *ssa.Function) value {
	res := fn.Signature.Results()
	switch res.Len() {
	case 0:
		return nil
	case 1:
		return stubZeroOf(res.At(0).Type())
	}
	var t tuple
	for k := 0; k < res.Len(); k++ {
		t = append(t, stubZeroOf(res.At(k).Type()))
	}
	return t
}

// InstallModelPkg wires natives that need the Go-level model package.
func (t *StubTable) InstallModelPkg(model *ssa.Package) {
	get := func(n string) *ssa.Function { return model.Func(n) }
	wrapf := func(i *interpreter, caller *frame, fn *ssa.Function, args []value) value {
		msg := nativeSprintf(i, caller, args[1].(string), args[2].([]value))
		return callSSA(i, caller, token.NoPos, get("ErrWrap"), []value{args[0], msg}, nil)
	}
	t.Native["github.com/cockroachdb/errors.Wrapf"] = wrapf
	t.Native["github.com/pkg/errors.Wrapf"] = wrapf
	newf := func(i *interpreter, caller *frame, fn *ssa.Function, args []value) value {
		format := args[0].(string)
		va := args[1].([]value)
		msg := nativeSprintf(i, caller, format, va)
		if strings.Contains(format, "%w") {
			for _, a := range va {
				if f, ok := a.(iface); ok && f.t != nil {
					if _, isErr := callMethodByNameProbe(i, f, "Error"); isErr {
						return callSSA(i, caller, token.NoPos, get("ErrWrap"), []value{a, msg}, nil)
					}
				}
			}
		}
		return callSSA(i, caller, token.NoPos, get("ErrNew"), []value{msg}, nil)
	}
	t.Native["github.com/cockroachdb/errors.Newf"] = newf
	t.Native["github.com/cockroachdb/errors.Errorf"] = newf
	t.Native["github.com/pkg/errors.Errorf"] = newf
	t.Native["fmt.Errorf"] = newf
}

func callMethodByNameProbe(i *interpreter, recv iface, name string) (*ssa.Function, bool) {
	ms := i.prog.MethodSets.MethodSet(recv.t)
	for k := 0; k < ms.Len(); k++ {
		if ms.At(k).Obj().Name() == name {
			return i.prog.MethodValue(ms.At(k)), true
		}
	}
	return nil, false
}

// stubZeroOf: zero value, except that a pointer-to-struct result is a fresh
// zero struct (stubbed loggers are dereferenced by value-receiver methods).
func stubZeroOf(t types.Type) value {
	if pt, ok := t.Underlying().(*types.Pointer); ok {
		if _, isStruct := pt.Elem().Underlying().(*types.Struct); isStruct {
			cell := zero(pt.Elem())
			return &cell
		}
	}
	return zero(t)
}
