package interp

// sync/atomic primitives (assembly in the real runtime) executed as plain
// sequential memory operations: the interpreter runs one goroutine at a time.

import (
	"go/token"
	"go/types"

	"golang.org/x/tools/go/ssa"
)

func installAtomicStubs(t *StubTable) {
	type nat = func(i *interpreter, caller *frame, fn *ssa.Function, args []value) value
	load := nat(func(i *interpreter, caller *frame, fn *ssa.Function, args []value) value {
		return *(args[0].(*value))
	})
	store := nat(func(i *interpreter, caller *frame, fn *ssa.Function, args []value) value {
		*(args[0].(*value)) = args[1]
		return nil
	})
	add := nat(func(i *interpreter, caller *frame, fn *ssa.Function, args []value) value {
		p := args[0].(*value)
		*p = binop(token.ADD, nil, *p, args[1])
		return *p
	})
	swap := nat(func(i *interpreter, caller *frame, fn *ssa.Function, args []value) value {
		p := args[0].(*value)
		old := *p
		*p = args[1]
		return old
	})
	cas := nat(func(i *interpreter, caller *frame, fn *ssa.Function, args []value) value {
		p := args[0].(*value)
		var t types.Type
		if sig := fn.Signature; sig.Params().Len() > 1 {
			t = sig.Params().At(1).Type()
		}
		if equals(t, *p, args[1]) {
			*p = args[2]
			return true
		}
		return false
	})
	for _, ty := range []string{"Int32", "Int64", "Uint32", "Uint64", "Uintptr", "Pointer"} {
		t.Native["sync/atomic.Load"+ty] = load
		t.Native["sync/atomic.Store"+ty] = store
		t.Native["sync/atomic.Swap"+ty] = swap
		t.Native["sync/atomic.CompareAndSwap"+ty] = cas
		if ty != "Pointer" {
			t.Native["sync/atomic.Add"+ty] = add
		}
	}
	// the runtime semaphores behind WaitGroup.Wait / Mutex.Lock slow paths: a
	// counter; acquiring blocks (scheduler) until it is positive
	for _, n := range []string{"sync.runtime_Semacquire", "sync.runtime_SemacquireMutex", "sync.runtime_SemacquireRWMutex", "sync.runtime_SemacquireRWMutexR", "sync.runtime_SemacquireWaitGroup"} {
		name := n
		t.Native[name] = func(i *interpreter, caller *frame, fn *ssa.Function, args []value) value {
			p := args[0].(*value)
			i.block(name, func() bool { return (*p).(uint32) > 0 })
			*p = (*p).(uint32) - 1
			return nil
		}
	}
	t.Native["sync.runtime_Semrelease"] = func(i *interpreter, caller *frame, fn *ssa.Function, args []value) value {
		p := args[0].(*value)
		*p = (*p).(uint32) + 1
		return nil
	}
	t.Native["sync.runtime_canSpin"] = func(i *interpreter, caller *frame, fn *ssa.Function, args []value) value { return false }
	t.Native["sync.runtime_nanotime"] = func(i *interpreter, caller *frame, fn *ssa.Function, args []value) value { return int64(0) }
	t.Native["sync.throw"] = func(i *interpreter, caller *frame, fn *ssa.Function, args []value) value {
		panic(rtErr{"sync: " + args[0].(string)})
	}
	t.Native["sync.fatal"] = t.Native["sync.throw"]
}

// strings.Builder avoids copies through unsafe; model the three unsafe spots.
func installStringsStubs(t *StubTable) {
	// wall-clock reads: an arbitrary fixed instant (no property here depends on time)
	t.Native["time.Now"] = func(i *interpreter, caller *frame, fn *ssa.Function, args []value) value {
		return zero(fn.Signature.Results().At(0).Type())
	}
	t.Native["(*strings.Builder).copyCheck"] = func(i *interpreter, caller *frame, fn *ssa.Function, args []value) value { return nil }
	t.Native["(*strings.Builder).Grow"] = func(i *interpreter, caller *frame, fn *ssa.Function, args []value) value { return nil }
	t.Native["(*strings.Builder).grow"] = func(i *interpreter, caller *frame, fn *ssa.Function, args []value) value { return nil }
	t.Native["(*strings.Builder).String"] = func(i *interpreter, caller *frame, fn *ssa.Function, args []value) value {
		b := (*args[0].(*value)).(structure)
		// struct { addr *Builder; buf []byte }
		buf, _ := b[1].([]value)
		return normStr(append(symString{}, buf...))
	}
}
