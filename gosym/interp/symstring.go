package interp

// Strings of concrete length whose bytes may be symbolic (DESIGN.md §2.6,
// built as a late feature for C24's name codec).

import (
	"fmt"
	"go/token"
	"go/types"

	"golang.org/x/tools/go/ssa"
)

// symString is a string value: one element per byte, each a uint8 or a symv(Uint8).
type symString []value

func asSymString(v value) (symString, bool) {
	switch v := v.(type) {
	case symString:
		return v, true
	case string:
		out := make(symString, len(v))
		for i := 0; i < len(v); i++ {
			out[i] = v[i]
		}
		return out, true
	}
	return nil, false
}

// normStr turns an all-concrete symString back into a Go string.
func normStr(s symString) value {
	b := make([]byte, len(s))
	for i, e := range s {
		c, ok := e.(byte)
		if !ok {
			return s
		}
		b[i] = c
	}
	return string(b)
}

func isSymString(v value) bool { _, ok := v.(symString); return ok }

func symStringBinop(op token.Token, x, y value) value {
	a, _ := asSymString(x)
	b, _ := asSymString(y)
	switch op {
	case token.ADD:
		out := make(symString, 0, len(a)+len(b))
		out = append(out, a...)
		out = append(out, b...)
		return normStr(out)
	case token.EQL, token.NEQ:
		var cond value = true
		if len(a) != len(b) {
			cond = false
		} else {
			for i := range a {
				c := binop(token.EQL, types.Typ[types.Uint8], a[i], b[i])
				cond = boolAnd(cond, c)
			}
		}
		if op == token.NEQ {
			if cb, ok := cond.(bool); ok {
				return !cb
			}
			return symUnop(token.NOT, cond.(symv))
		}
		return cond
	}
	unsupported("operator %v on strings with symbolic bytes", op)
	return nil
}

func boolAnd(x, y value) value {
	xb, xc := x.(bool)
	yb, yc := y.(bool)
	switch {
	case xc && !xb, yc && !yb:
		return false
	case xc && yc:
		return true
	case xc:
		return y
	case yc:
		return x
	}
	a, b := x.(symv), y.(symv)
	return a.ex.name(mkBool(a.ex, "(and "+a.e+" "+b.e+")"))
}

// symStringIter ranges over a symString assuming every byte is ASCII (declared so).
type symStringIter struct {
	s symString
	i int
}

func (it *symStringIter) next() tuple {
	if it.i >= len(it.s) {
		return tuple{false, 0, int32(0)}
	}
	e := it.s[it.i]
	var r value
	if sv, ok := e.(symv); ok {
		r = symConv(types.Typ[types.Int32], sv)
	} else {
		r = int32(e.(byte))
	}
	it.i++
	return tuple{true, it.i - 1, r}
}

func installSymStringStubs(t *StubTable) {
	byteEq := func(e, c value) bool {
		r := binop(token.EQL, types.Typ[types.Uint8], e, c)
		if b, ok := r.(bool); ok {
			return b
		}
		sv := r.(symv)
		return sv.ex.decide(sv)
	}
	// the two assembly kernels behind strings.Index / Count / Split / Contains for a 1-byte separator
	t.Native["internal/bytealg.IndexByteString"] = func(i *interpreter, caller *frame, fn *ssa.Function, args []value) value {
		s, _ := asSymString(args[0])
		for k := range s {
			if byteEq(s[k], args[1]) {
				return k
			}
		}
		return -1
	}
	t.Native["internal/bytealg.CountString"] = func(i *interpreter, caller *frame, fn *ssa.Function, args []value) value {
		s, _ := asSymString(args[0])
		n := 0
		for k := range s {
			if byteEq(s[k], args[1]) {
				n++
			}
		}
		return n
	}
	// upstream externals for these expect Go strings: with symbolic bytes run the real bodies
	for _, name := range []string{"strings.Index", "strings.IndexByte", "strings.Count", "strings.ToLower", "strings.EqualFold", "strings.Replace"} {
		name := name
		t.Native[name] = func(i *interpreter, caller *frame, fn *ssa.Function, args []value) value {
			if isSymString(args[0]) || (len(args) > 1 && isSymString(args[1])) {
				return callSSAraw(i, caller, token.NoPos, fn, args, nil)
			}
			return externals[name](&frame{i: i, caller: caller, fn: fn}, args)
		}
	}
}

// vStr intrinsic: a string of n symbolic ASCII bytes.
func (ex *Explorer) newSymString(name string, n int) value {
	out := make(symString, n)
	for k := 0; k < n; k++ {
		v := ex.declare(fmt.Sprintf("%s!%d", name, k), symv{k: kInt, bk: types.Uint8})
		ex.assertTerm(fmt.Sprintf("(and (>= %s 1) (<= %s 127))", v.e, v.e))
		out[k] = v
	}
	return normStr(out)
}
