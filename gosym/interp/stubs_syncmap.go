package interp

// sync.Map as a plain insertion-ordered table (one goroutine at a time).

import (
	"go/types"

	"golang.org/x/tools/go/ssa"
)

type smEntry struct {
	k, v value
}

func (i *interpreter) syncMapOf(recv value) *[]smEntry {
	p := recv.(*value)
	if i.syncMaps == nil {
		i.syncMaps = map[*value]*[]smEntry{}
	}
	m, ok := i.syncMaps[p]
	if !ok {
		m = &[]smEntry{}
		i.syncMaps[p] = m
	}
	return m
}

func installSyncMapStubs(t *StubTable) {
	anyT := types.NewInterfaceType(nil, nil)
	find := func(m *[]smEntry, k value) int {
		for j, e := range *m {
			if equals(anyT, e.k, k) {
				return j
			}
		}
		return -1
	}
	t.Native["(*sync.Map).Store"] = func(i *interpreter, caller *frame, fn *ssa.Function, args []value) value {
		m := i.syncMapOf(args[0])
		if j := find(m, args[1]); j >= 0 {
			(*m)[j].v = args[2]
		} else {
			*m = append(*m, smEntry{args[1], args[2]})
		}
		return nil
	}
	t.Native["(*sync.Map).Load"] = func(i *interpreter, caller *frame, fn *ssa.Function, args []value) value {
		m := i.syncMapOf(args[0])
		if j := find(m, args[1]); j >= 0 {
			return tuple{(*m)[j].v, true}
		}
		return tuple{iface{}, false}
	}
	t.Native["(*sync.Map).LoadOrStore"] = func(i *interpreter, caller *frame, fn *ssa.Function, args []value) value {
		m := i.syncMapOf(args[0])
		if j := find(m, args[1]); j >= 0 {
			return tuple{(*m)[j].v, true}
		}
		*m = append(*m, smEntry{args[1], args[2]})
		return tuple{args[2], false}
	}
	t.Native["(*sync.Map).Delete"] = func(i *interpreter, caller *frame, fn *ssa.Function, args []value) value {
		m := i.syncMapOf(args[0])
		if j := find(m, args[1]); j >= 0 {
			*m = append((*m)[:j], (*m)[j+1:]...)
		}
		return nil
	}
	// github.com/alphadose/haxmap (lock-free map built on unsafe/atomics): same table
	const hm = "(*github.com/alphadose/haxmap.Map[K, V])."
	t.Native[hm+"Set"] = t.Native["(*sync.Map).Store"]
	t.Native[hm+"Del"] = func(i *interpreter, caller *frame, fn *ssa.Function, args []value) value {
		m := i.syncMapOf(args[0])
		for _, k := range args[1].([]value) {
			if j := find(m, k); j >= 0 {
				*m = append((*m)[:j], (*m)[j+1:]...)
			}
		}
		return nil
	}
	t.Native[hm+"Len"] = func(i *interpreter, caller *frame, fn *ssa.Function, args []value) value {
		return uintptr(len(*i.syncMapOf(args[0])))
	}
	t.Native[hm+"ForEach"] = func(i *interpreter, caller *frame, fn *ssa.Function, args []value) value {
		m := i.syncMapOf(args[0])
		snapshot := append([]smEntry{}, (*m)...)
		for _, e := range snapshot {
			if r := call(i, caller, 0, args[1], []value{e.k, e.v}); r != nil {
				if b, ok := r.(bool); ok && !b {
					break
				}
			}
		}
		return nil
	}
	t.Native[hm+"Get"] = func(i *interpreter, caller *frame, fn *ssa.Function, args []value) value {
		m := i.syncMapOf(args[0])
		if j := find(m, args[1]); j >= 0 {
			return tuple{(*m)[j].v, true}
		}
		return tuple{zero(fn.Signature.Results().At(0).Type()), false}
	}
	t.Native["(*sync.Map).Range"] = func(i *interpreter, caller *frame, fn *ssa.Function, args []value) value {
		m := i.syncMapOf(args[0])
		snapshot := append([]smEntry{}, (*m)...)
		for _, e := range snapshot {
			if r := call(i, caller, 0, args[1], []value{e.k, e.v}); r != nil {
				if b, ok := r.(bool); ok && !b {
					break
				}
			}
		}
		return nil
	}
}
