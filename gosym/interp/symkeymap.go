package interp

// Maps keyed by strings whose bytes are symbolic (built for C35's metadata
// maps).  A string-keyed map is a native map[value]value; a key with symbolic
// bytes is stored as a *symKey.  Invariant: under the current path condition
// the keys of a map are pairwise different - every insertion compares the new
// key with the existing ones (one decision per candidate) first.

import (
	"sort"
	"sync/atomic"
)

type symKey struct {
	s   symString
	seq int64
}

var symKeySeq int64 // >0 once any symbolic key exists (enables the slow paths)

// mapFindKey returns the key object under which `key` is (or would be) stored in m.
func mapFindKey(m map[value]value, key value) (value, bool) {
	switch k := key.(type) {
	case string:
		if _, ok := m[k]; ok {
			return k, true
		}
		if atomic.LoadInt64(&symKeySeq) == 0 {
			return k, false
		}
		for _, sk := range symKeysOf(m) {
			if equals(nil, sk.s, k) {
				return sk, true
			}
		}
		return k, false
	case symString:
		var strs []string
		for e := range m {
			if s, ok := e.(string); ok {
				strs = append(strs, s)
			}
		}
		sort.Strings(strs)
		for _, s := range strs {
			if len(s) == len(k) && equals(nil, k, s) {
				return s, true
			}
		}
		for _, sk := range symKeysOf(m) {
			if equals(nil, sk.s, k) {
				return sk, true
			}
		}
		return &symKey{s: k, seq: atomic.AddInt64(&symKeySeq, 1)}, false
	}
	_, ok := m[key]
	return key, ok
}

func symKeysOf(m map[value]value) []*symKey {
	var out []*symKey
	for e := range m {
		if sk, ok := e.(*symKey); ok {
			out = append(out, sk)
		}
	}
	sort.Slice(out, func(a, b int) bool { return out[a].seq < out[b].seq })
	return out
}

// unwrapKey turns a stored key back into the program's value.
func unwrapKey(k value) value {
	if sk, ok := k.(*symKey); ok {
		return sk.s
	}
	return k
}
