package interp

// Long-lived SMT solver sessions (z3 -in / cvc5 --incremental) spoken to in
// SMT-LIB2 over pipes.  One session per exploration worker.

import (
	"bufio"
	"fmt"
	"io"
	"os"
	"os/exec"
	"strings"
	"sync/atomic"
	"time"
)

type solver struct {
	kind     string // "z3", "z3-new", "cvc5"
	cmd      *exec.Cmd
	in       *bufio.Writer
	inc      io.WriteCloser
	out      *bufio.Reader
	log      io.Writer // optional query dump
	dead     bool
	lastErr  string
	timeoutS int
	// one-shot mode: every query is a fresh solver process fed with the current
	// assertion stack (z3's non-incremental tactics decide FP queries far faster)
	oneshot bool
	frames  [][]string
	mirror  bool // keep a textual copy of the assertion stack (solver cross-check)
}

// SolverError is panicked when the solver process misbehaves; the path is
// then reported as inconclusive, never as success.
type SolverError struct{ Msg string }

var solverSpawned int64

func wrapDefs() []string {
	var defs []string
	for _, n := range []int{8, 16, 32, 64} {
		half := new2pow(n - 1)
		full := new2pow(n)
		max := subOne(half)
		defs = append(defs,
			// single-step wrap (exact for sums/differences of two in-range values)
			fmt.Sprintf("(define-fun wrapS%d ((v Int)) Int (ite (> v %s) (- v %s) (ite (< v (- %s)) (+ v %s) v)))", n, max, full, half, full),
			fmt.Sprintf("(define-fun wrapU%d ((v Int)) Int (ite (>= v %s) (- v %s) (ite (< v 0) (+ v %s) v)))", n, full, full, full),
			// general wrap (products, conversions)
			fmt.Sprintf("(define-fun wrapmS%d ((v Int)) Int (let ((m (mod v %s))) (ite (> m %s) (- m %s) m)))", n, full, max, full),
			fmt.Sprintf("(define-fun wrapmU%d ((v Int)) Int (mod v %s))", n, full),
		)
	}
	// Go's truncated division and remainder on mathematical integers (b != 0)
	defs = append(defs,
		"(define-fun tdiv ((a Int) (b Int)) Int (ite (>= a 0) (ite (> b 0) (div a b) (- (div a (- b)))) (ite (> b 0) (- (div (- a) b)) (div (- a) (- b)))))",
		"(define-fun trem ((a Int) (b Int)) Int (- a (* b (tdiv a b))))",
		"(define-fun iabs ((a Int)) Int (ite (>= a 0) a (- a)))",
	)
	return defs
}

func newSolver(kind string, timeoutS int, log io.Writer) *solver {
	var cmd *exec.Cmd
	if kind == "z3-oneshot" || kind == "cvc5-oneshot" {
		s := &solver{kind: kind, oneshot: true, timeoutS: timeoutS, log: log, frames: [][]string{nil}}
		for _, d := range wrapDefs() {
			s.send(d)
		}
		return s
	}
	switch kind {
	case "z3", "":
		kind = "z3"
		cmd = exec.Command("z3", "-in")
	case "z3-new":
		cmd = exec.Command("z3-new", "-in")
	case "cvc5":
		cmd = exec.Command("cvc5", "--incremental", "--fp-exp", "--produce-models", fmt.Sprintf("--tlimit-per=%d", timeoutS*1000))
	default:
		panic("unknown solver " + kind)
	}
	in, _ := cmd.StdinPipe()
	outp, _ := cmd.StdoutPipe()
	cmd.Stderr = os.Stderr
	if err := cmd.Start(); err != nil {
		panic(SolverError{"cannot start solver: " + err.Error()})
	}
	atomic.AddInt64(&solverSpawned, 1)
	s := &solver{kind: kind, cmd: cmd, in: bufio.NewWriterSize(in, 1<<16), inc: in, out: bufio.NewReaderSize(outp, 1<<16), log: log, timeoutS: timeoutS, frames: [][]string{nil}}
	if kind == "cvc5" {
		s.send("(set-logic ALL)")
	} else {
		s.send(fmt.Sprintf("(set-option :timeout %d)", timeoutS*1000))
	}
	for _, d := range wrapDefs() {
		s.send(d)
	}
	return s
}

func (s *solver) send(cmd string) {
	if s.dead {
		return
	}
	if s.oneshot {
		if s.log != nil {
			io.WriteString(s.log, cmd+"\n")
		}
		switch {
		case strings.HasPrefix(cmd, "(push"):
			s.frames = append(s.frames, nil)
		case strings.HasPrefix(cmd, "(pop"):
			if len(s.frames) > 1 {
				s.frames = s.frames[:len(s.frames)-1]
			}
		default:
			s.frames[len(s.frames)-1] = append(s.frames[len(s.frames)-1], cmd)
		}
		return
	}
	s.in.WriteString(cmd)
	s.in.WriteByte('\n')
	if s.log != nil {
		io.WriteString(s.log, cmd+"\n")
	}
	if s.mirror {
		switch {
		case strings.HasPrefix(cmd, "(push"):
			s.frames = append(s.frames, nil)
		case strings.HasPrefix(cmd, "(pop"):
			if len(s.frames) > 1 {
				s.frames = s.frames[:len(s.frames)-1]
			}
		case strings.HasPrefix(cmd, "(check-sat") || strings.HasPrefix(cmd, "(get-value") || strings.HasPrefix(cmd, "(set-option"):
		default:
			s.frames[len(s.frames)-1] = append(s.frames[len(s.frames)-1], cmd)
		}
	}
}

// script returns the current assertion stack as an SMT-LIB2 script (mirror mode).
func (s *solver) script() string {
	var sb strings.Builder
	for _, d := range wrapDefs() {
		sb.WriteString(d)
		sb.WriteByte('\n')
	}
	for _, f := range s.frames {
		for _, l := range f {
			sb.WriteString(l)
			sb.WriteByte('\n')
		}
	}
	return sb.String()
}

// secondOpinion decides `script + (check-sat)` with another solver, one-shot.
func secondOpinion(kind, script string, timeoutS int) string {
	var cmd *exec.Cmd
	switch kind {
	case "cvc5":
		cmd = exec.Command("cvc5", "--lang=smt2", fmt.Sprintf("--tlimit=%d", timeoutS*1000))
		script = "(set-logic ALL)\n" + script
	default:
		cmd = exec.Command("z3-new", "-in", "-smt2", fmt.Sprintf("-T:%d", timeoutS))
	}
	cmd.Stdin = strings.NewReader(script + "(check-sat)\n")
	out, _ := cmd.Output()
	for _, l := range strings.Split(string(out), "\n") {
		l = strings.TrimSpace(l)
		if l == "sat" || l == "unsat" {
			return l
		}
	}
	return "unknown"
}

func (s *solver) readLine() string {
	s.in.Flush()
	for {
		l, err := s.out.ReadString('\n')
		if err != nil {
			s.dead = true
			panic(SolverError{"solver pipe closed: " + err.Error()})
		}
		l = strings.TrimSpace(l)
		if l == "" {
			continue
		}
		if strings.HasPrefix(l, "(error") {
			s.lastErr = l
			panic(SolverError{"solver error: " + l})
		}
		return l
	}
}

func (s *solver) runOneShot(tail string) []string {
	var sb strings.Builder
	for _, f := range s.frames {
		for _, l := range f {
			sb.WriteString(l)
			sb.WriteByte('\n')
		}
	}
	sb.WriteString(tail)
	var cmd *exec.Cmd
	if s.kind == "cvc5-oneshot" {
		cmd = exec.Command("cvc5", "--fp-exp", "--produce-models", "--lang=smt2", fmt.Sprintf("--tlimit=%d", s.timeoutS*1000))
		cmd.Stdin = strings.NewReader("(set-logic ALL)\n" + sb.String())
	} else {
		cmd = exec.Command("z3", "-in", "-smt2", fmt.Sprintf("-T:%d", s.timeoutS))
		cmd.Stdin = strings.NewReader(sb.String())
	}
	atomic.AddInt64(&solverSpawned, 1)
	out, _ := cmd.Output()
	var lines []string
	for _, l := range strings.Split(string(out), "\n") {
		l = strings.TrimSpace(l)
		if l == "" {
			continue
		}
		if strings.HasPrefix(l, "(error") {
			panic(SolverError{"solver error: " + l})
		}
		lines = append(lines, l)
	}
	return lines
}

// checkSat runs (check-sat) and returns "sat", "unsat" or "unknown".
func (s *solver) checkSat() (string, time.Duration) {
	t0 := time.Now()
	if s.oneshot {
		lines := s.runOneShot("(check-sat)\n")
		r := "unknown"
		if len(lines) > 0 && (lines[0] == "sat" || lines[0] == "unsat") {
			r = lines[0]
		}
		d := time.Since(t0)
		if s.log != nil {
			fmt.Fprintf(s.log, "; one-shot -> %s (%v)\n", r, d)
		}
		return r, d
	}
	s.send("(check-sat)")
	r := s.readLine()
	d := time.Since(t0)
	switch r {
	case "sat", "unsat", "unknown":
	case "timeout":
		r = "unknown"
	default:
		panic(SolverError{"unexpected check-sat answer: " + r})
	}
	if s.log != nil {
		fmt.Fprintf(s.log, "; -> %s (%v)\n", r, d)
	}
	return r, d
}

// getValues returns the raw (get-value ...) answer as one string.
func (s *solver) getValues(terms []string) string {
	if s.oneshot {
		lines := s.runOneShot("(check-sat)\n(get-value (" + strings.Join(terms, " ") + "))\n")
		if len(lines) < 2 || lines[0] != "sat" {
			panic(SolverError{"one-shot model query did not answer sat"})
		}
		return strings.Join(lines[1:], " ")
	}
	s.send("(get-value (" + strings.Join(terms, " ") + "))")
	depth := 0
	var sb strings.Builder
	for {
		l := s.readLine()
		sb.WriteString(l)
		sb.WriteByte(' ')
		depth += strings.Count(l, "(") - strings.Count(l, ")")
		if depth <= 0 {
			break
		}
	}
	return sb.String()
}

func (s *solver) close() {
	if s == nil || s.cmd == nil || s.oneshot {
		return
	}
	s.dead = true
	s.inc.Close()
	s.cmd.Process.Kill()
	s.cmd.Wait()
}

// ---- tiny S-expression reader for get-value answers ----

type sexp struct {
	atom string
	list []*sexp
}

func parseSexp(src string) *sexp {
	pos := 0
	var parse func() *sexp
	parse = func() *sexp {
		for pos < len(src) && (src[pos] == ' ' || src[pos] == '\n' || src[pos] == '\t') {
			pos++
		}
		if pos >= len(src) {
			return nil
		}
		if src[pos] == '(' {
			pos++
			n := &sexp{list: []*sexp{}}
			for {
				for pos < len(src) && (src[pos] == ' ' || src[pos] == '\n' || src[pos] == '\t') {
					pos++
				}
				if pos >= len(src) {
					return n
				}
				if src[pos] == ')' {
					pos++
					return n
				}
				n.list = append(n.list, parse())
			}
		}
		st := pos
		if src[pos] == '|' {
			pos++
			for pos < len(src) && src[pos] != '|' {
				pos++
			}
			pos++
			return &sexp{atom: src[st:pos]}
		}
		for pos < len(src) && src[pos] != ' ' && src[pos] != '(' && src[pos] != ')' && src[pos] != '\n' {
			pos++
		}
		return &sexp{atom: src[st:pos]}
	}
	return parse()
}

func (e *sexp) String() string {
	if e == nil {
		return ""
	}
	if e.list == nil {
		return e.atom
	}
	var parts []string
	for _, c := range e.list {
		parts = append(parts, c.String())
	}
	return "(" + strings.Join(parts, " ") + ")"
}
