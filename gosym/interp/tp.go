package interp

import "go/types"

type tpT struct{}

var typeparams tpT

func (tpT) MustDeref(t types.Type) types.Type {
	if p, ok := t.Underlying().(*types.Pointer); ok {
		return p.Elem()
	}
	// core type
	if p, ok := types.Unalias(t).Underlying().(*types.Pointer); ok {
		return p.Elem()
	}
	panic("not a pointer: " + t.String())
}
