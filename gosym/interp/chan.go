package interp

// Channels with Go's blocking semantics on top of the cooperative scheduler
// (sched.go).  Every channel operation - plain send, plain receive, select - is
// one "selection" over a list of cases, done the way the runtime's selectgo
// does it: first look for a case that can complete now (a waiting partner, data
// or room in the buffer, a closed channel), in source order; otherwise enqueue a
// waiter on every channel involved and block until some other goroutine
// completes one of the cases on our behalf (direct hand-off) or closes a channel.
// Unbuffered channels are therefore true rendezvous points and buffered ones
// block when full / empty.

import (
	"fmt"
	"go/types"
)

type mchan struct {
	buf      []value
	closed   bool
	capacity int
	sendq    []*chanCase // blocked senders (value attached)
	recvq    []*chanCase // blocked receivers
}

// selWaiter is one blocked selection; its cases sit in the queues of their channels.
type selWaiter struct {
	fired       bool
	chosen      int
	val         value
	ok          bool
	closedPanic bool // woken because a channel it wanted to send on was closed
}

type chanCase struct {
	w    *selWaiter
	idx  int
	ch   *mchan
	send bool
	val  value // value to send
}

func popLive(q *[]*chanCase) *chanCase {
	for len(*q) > 0 {
		c := (*q)[0]
		*q = (*q)[1:]
		if !c.w.fired {
			return c
		}
	}
	return nil
}

// tryCase attempts to complete case c right now.
func tryCase(c *chanCase) (done bool, val value, ok bool) {
	ch := c.ch
	if ch == nil {
		return false, nil, false // nil channel: never ready
	}
	if c.send {
		if ch.closed {
			panic(rtErr{"send on closed channel"})
		}
		if r := popLive(&ch.recvq); r != nil {
			r.w.fired, r.w.chosen, r.w.val, r.w.ok = true, r.idx, c.val, true
			return true, nil, false
		}
		if len(ch.buf) < ch.capacity {
			ch.buf = append(ch.buf, c.val)
			return true, nil, false
		}
		return false, nil, false
	}
	if len(ch.buf) > 0 {
		v := ch.buf[0]
		ch.buf = ch.buf[1:]
		// a sender blocked on the full buffer moves up
		if s := popLive(&ch.sendq); s != nil {
			ch.buf = append(ch.buf, s.val)
			s.w.fired, s.w.chosen = true, s.idx
		}
		return true, v, true
	}
	if s := popLive(&ch.sendq); s != nil {
		s.w.fired, s.w.chosen = true, s.idx
		return true, s.val, true
	}
	if ch.closed {
		return true, nil, false
	}
	return false, nil, false
}

// caseReady reports (without side effects) whether case c could complete right now.
func caseReady(c *chanCase) bool {
	ch := c.ch
	if ch == nil {
		return false
	}
	live := func(q []*chanCase) bool {
		for _, e := range q {
			if !e.w.fired {
				return true
			}
		}
		return false
	}
	if c.send {
		return ch.closed || live(ch.recvq) || len(ch.buf) < ch.capacity
	}
	return len(ch.buf) > 0 || live(ch.sendq) || ch.closed
}

// selectCases performs one selection.  blocking=false: returns chosen=-1 when no case is ready.
// Go picks at random among several ready cases; here the first ready case in
// source order is taken, except that within the session's budget of scheduling
// choices the pick is a SYMBOLIC choice (one explored path per ready case).
func (i *interpreter) selectCases(what string, cases []*chanCase, blocking bool) (chosen int, val value, ok bool) {
	if len(cases) > 1 && i.ex != nil && i.ex.S.SchedChoices > 0 {
		var ready []*chanCase
		for _, c := range cases {
			if caseReady(c) {
				ready = append(ready, c)
			}
		}
		sc := i.scheduler()
		if len(ready) > 1 && sc.selChoices < i.ex.S.SchedChoices {
			sc.selChoices++
			v := i.ex.declare(fmt.Sprintf("select_choice_%d", sc.selChoices), symv{k: kInt, bk: types.Int})
			i.ex.assertTerm(fmt.Sprintf("(and (>= %s 0) (< %s %d))", v.e, v.e, len(ready)))
			c := ready[i.ex.concretize(v).(int)]
			if done, v, k := tryCase(c); done {
				return c.idx, v, k
			}
		}
	}
	for _, c := range cases {
		if done, v, k := tryCase(c); done {
			return c.idx, v, k
		}
	}
	if !blocking {
		return -1, nil, false
	}
	w := &selWaiter{}
	for _, c := range cases {
		if c.ch == nil {
			continue
		}
		c.w = w
		if c.send {
			c.ch.sendq = append(c.ch.sendq, c)
		} else {
			c.ch.recvq = append(c.ch.recvq, c)
		}
	}
	i.block(what, func() bool { return w.fired })
	if w.closedPanic {
		panic(rtErr{"send on closed channel"})
	}
	return w.chosen, w.val, w.ok
}

func (i *interpreter) chanSend(where string, ch *mchan, v value) {
	if ch == nil {
		i.block("send on nil channel at "+where, func() bool { return false })
	}
	i.selectCases("channel send at "+where, []*chanCase{{idx: 0, ch: ch, send: true, val: v}}, true)
}

func (i *interpreter) chanRecv(where string, ch *mchan) (value, bool) {
	if ch == nil {
		i.block("receive from nil channel at "+where, func() bool { return false })
	}
	_, v, ok := i.selectCases("channel receive at "+where, []*chanCase{{idx: 0, ch: ch}}, true)
	return v, ok
}

func (c *mchan) close() {
	if c == nil {
		panic(rtErr{"close of nil channel"})
	}
	if c.closed {
		panic(rtErr{"close of closed channel"})
	}
	c.closed = true
	for r := popLive(&c.recvq); r != nil; r = popLive(&c.recvq) {
		r.w.fired, r.w.chosen, r.w.val, r.w.ok = true, r.idx, nil, false
	}
	for s := popLive(&c.sendq); s != nil; s = popLive(&c.sendq) {
		s.w.fired, s.w.chosen, s.w.closedPanic = true, s.idx, true
	}
}

var _ = types.RecvOnly
