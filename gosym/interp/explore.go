package interp

// Stateless path exploration: a path is a decision vector; every queued vector
// is re-executed from the harness entry (DESIGN.md §2.2).

import (
	"fmt"
	"go/token"
	"go/types"
	"math/big"
	"os"
	"runtime"
	"sort"
	"strings"
	"sync"
	"time"

	"golang.org/x/tools/go/ssa"
)

type rtErr struct{ msg string }

func (e rtErr) Error() string { return "runtime error: " + e.msg }
func (rtErr) RuntimeError()   {}

// pathAbort ends the current path.
//
//	kind "assume":      path pruned by an assumption (not an outcome)
//	kind "unsupported": the engine cannot encode something => inconclusive
//	kind "budget":      step budget exceeded
//	kind "harness":     harness misuse
type pathAbort struct {
	kind string
	why  string
}

// Dec is one recorded decision of a path.
type Dec struct {
	B   bool   // branch taken (for value decisions: whether "= K" was taken)
	K   string // for value decisions: the pivot value
	IsK bool
	Rel string // for value decisions: "<", "=", ">" relative to K
}

// Known describes one recorded (not repaired) finding.
type Known struct {
	ID       string   `json:"id"`
	Property string   `json:"property"`
	Labels   []string `json:"labels"` // assertion labels (or "panic"/"hang") it may explain
	What     string   `json:"what"`
}

// Violation is a solver model for pc ∧ ¬assertion (or a panicking / diverging path).
type Violation struct {
	Harness string            `json:"harness"`
	Label   string            `json:"label"`
	Kind    string            `json:"kind"` // assert | panic | hang
	Detail  string            `json:"detail,omitempty"`
	Model   map[string]string `json:"model"`
	KnownID string            `json:"known_id,omitempty"`
	Nondet  bool              `json:"native_run_not_deterministic,omitempty"` // the harness said vNoSample: natively schedule / map order / time decide
	Path    []Dec             `json:"-"`
}

// Sample is a completed path with a model, for evidence and translator validation.
type Sample struct {
	Harness  string            `json:"harness"`
	Outcome  string            `json:"outcome"`
	Decision int               `json:"decisions"`
	Model    map[string]string `json:"model,omitempty"`
	Observed map[string]string `json:"observed,omitempty"`
	Failing  []string          `json:"assertions_failing_under_these_inputs,omitempty"`
}

// Session is the state shared by all workers exploring one harness.
type Session struct {
	Prog         *ssa.Program
	Fn           *ssa.Function
	Harness      string
	Arg          *string // optional single string argument of the harness function
	Sizes        types.Sizes
	PropPrefix   string // only assertions labelled "<PropPrefix>/..." or unprefixed are checked
	FloatMode    string // "ieee" | "grid"
	SolverKind   string
	TimeoutS     int
	StepBudget   int64
	MaxPaths     int
	Known        []Known
	Stubs        *StubTable
	QueryLog     string
	Trace        bool
	WantSample   int                  // number of completed paths to sample with model+observations
	InlineGo     bool                 // `go f()` runs f inline (stated per harness)
	LazyGo       bool                 // lazy scheduling policy (sched.go); InlineGo = eager policy
	SchedChoices int                  // the first n scheduling points with several candidates are symbolic choices
	ModelPkg     *ssa.Package         // the zzverif model package (context model etc.)
	NeedInit     map[*ssa.Global]bool // globals given a value by a package init that is not executed
	Preemptions  int                  // vYield points may hand over to another goroutine at most this often (symbolic)
	ExtraInits   []*ssa.Function      // package initialisers to run before the harness package's
	// PermuteRanges: functions (ssa names) whose `range` over a map of 2-3 keys
	// is explored in every order instead of the deterministic sorted one
	PermuteRanges map[string]bool
	// ReloadReturn: positions of `return v, f()` statements and the result indices
	// that are plain variables: they are re-read at the return (gc's order)
	ReloadReturn map[token.Pos][]int
	// CrossCheck > 0: re-decide up to that many assertion queries per harness with
	// z3 5.1 (z3-new) and cvc5, one-shot; any sat/unsat disagreement is inconclusive
	CrossCheck    int
	CrossChecked  int
	CrossAgree    int
	CrossUnknown  int
	crossSeen     int
	IntrinsicPkgs map[string]bool

	mu            sync.Mutex
	Paths         int
	Decisions     int64
	MaxDecisions  int
	Queries       int64
	SolverTime    time.Duration
	SlowestQuery  time.Duration
	Unknowns      int
	Outcomes      map[string]int
	Viol          []Violation          // new violations (deduped by label)
	KnownHits     map[string]Violation // finding id -> witness
	Covers        map[string]bool
	CoverDecl     map[string]bool
	AssertsByLbl  map[string]int // label -> number of discharged (unsat) queries
	AssertQueries int64
	Discharged    int64
	Inconclusive  []string
	Funcs         map[string]bool // core functions entered
	StubsUsed     map[string]bool
	Assumes       map[string]int // pruned-by-assumption counter per site
	Samples       []Sample
	violSeen      map[string]bool
}

func (s *Session) init() {
	if s.Outcomes == nil {
		s.Outcomes = map[string]int{}
		s.KnownHits = map[string]Violation{}
		s.Covers = map[string]bool{}
		s.CoverDecl = map[string]bool{}
		s.AssertsByLbl = map[string]int{}
		s.Funcs = map[string]bool{}
		s.StubsUsed = map[string]bool{}
		s.Assumes = map[string]int{}
		s.violSeen = map[string]bool{}
		s.computeNeedInit()
	}
}

func (s *Session) labelActive(label string) bool {
	i := strings.Index(label, "/")
	if i < 0 || s.PropPrefix == "" {
		return true
	}
	for _, p := range strings.Split(label[:i], ",") {
		if p == s.PropPrefix {
			return true
		}
	}
	return false
}

// Explorer is the per-worker exploration state.
type Explorer struct {
	S  *Session
	z  *solver
	i  *interpreter
	id int

	prefix  []Dec
	taken   []Dec
	pending [][]Dec

	decls    []string
	declKind map[string]symv
	auxN     int
	steps    int64
	regions  []struct{ id, e string }
	gridObl  []string
	obs      []struct{ label, term string }
	asserted []struct{ label, term string } // active assertions met on this path (term "false" = concretely false)
	obsConc  map[string]string

	panicWhere string
	noSample   bool
	hints      map[string]string // vHint: concrete notes for the native replay
	sliceN     int
	permN      int
	// per-path results, merged into the session at path end
	queries    int64
	solverTime time.Duration
	funcs      map[string]bool
	stubsUsed  map[string]bool
	qlog       *os.File
}

// crossCheck re-decides `pc ∧ extra` with the other solvers (sampled).
func (ex *Explorer) crossCheck(extra, verdict, label string) {
	s := ex.S
	if s.CrossCheck == 0 || ex.z == nil || !ex.z.mirror || (verdict != "sat" && verdict != "unsat") {
		return
	}
	s.mu.Lock()
	s.crossSeen++
	take := s.CrossChecked < s.CrossCheck && (s.crossSeen%7 == 1 || verdict == "sat")
	if take {
		s.CrossChecked++
	}
	s.mu.Unlock()
	if !take {
		return
	}
	script := ex.z.script() + "(assert " + extra + ")\n"
	for _, other := range []string{"z3-new", "cvc5"} {
		r := secondOpinion(other, script, 60)
		s.mu.Lock()
		switch {
		case r == "unknown":
			s.CrossUnknown++
		case r == verdict:
			s.CrossAgree++
		default:
			if len(s.Inconclusive) < 50 {
				s.Inconclusive = append(s.Inconclusive, fmt.Sprintf("SOLVER-DISAGREEMENT on assertion %s: z3 4.8.12 says %s, %s says %s", label, verdict, other, r))
			}
		}
		s.mu.Unlock()
	}
}

func (ex *Explorer) solver() *solver {
	if ex.z == nil || ex.z.dead {
		var lg *os.File
		if ex.S.QueryLog != "" {
			lg, _ = os.Create(fmt.Sprintf("%s.%d.smt2", ex.S.QueryLog, ex.id))
			ex.qlog = lg
		}
		if lg != nil {
			ex.z = newSolver(ex.S.SolverKind, ex.S.TimeoutS, lg)
		} else {
			ex.z = newSolver(ex.S.SolverKind, ex.S.TimeoutS, nil)
		}
		ex.z.mirror = ex.S.CrossCheck > 0 && !ex.z.oneshot
	}
	return ex.z
}

// check asks whether pc ∧ extra is satisfiable; leaves the push frame open
// (caller must pop) so that a model can be read.
func (ex *Explorer) check(extra string) string {
	z := ex.solver()
	z.send("(push 1)")
	if extra != "" {
		z.send("(assert " + extra + ")")
	}
	r, d := z.checkSat()
	ex.queries++
	ex.solverTime += d
	if d > ex.S.SlowestQuery {
		ex.S.mu.Lock()
		if d > ex.S.SlowestQuery {
			ex.S.SlowestQuery = d
		}
		ex.S.mu.Unlock()
	}
	if r == "unknown" {
		ex.S.mu.Lock()
		ex.S.Unknowns++
		ex.S.mu.Unlock()
	}
	return r
}
func (ex *Explorer) pop() { ex.z.send("(pop 1)") }

func (ex *Explorer) checkPop(extra string) string {
	r := ex.check(extra)
	ex.pop()
	return r
}

func (ex *Explorer) assertTerm(t string) { ex.solver().send("(assert " + t + ")") }

// name introduces an auxiliary constant for a long term so that terms stay
// DAG-sized.  The definition is re-emitted identically on re-execution.
func (ex *Explorer) name(v symv) symv {
	if len(v.e) < 160 {
		return v
	}
	ex.auxN++
	n := fmt.Sprintf("aux!%d", ex.auxN)
	n = "|" + n + "|"
	switch {
	case v.k == kBool:
		ex.z.send("(declare-const " + n + " Bool)")
	case v.k == kInt || v.g != nil:
		ex.z.send("(declare-const " + n + " Int)")
	default:
		ex.z.send("(declare-const " + n + " (_ FloatingPoint 11 53))")
	}
	ex.z.send("(assert (= " + n + " " + v.e + "))")
	v.e = n
	v.bv = ""
	return v
}

func (ex *Explorer) gridOblig(term string) {
	if _, err := fmt.Sscan(term, new(int64)); err == nil && !strings.ContainsAny(term, "( ") {
		return // small literal
	}
	ex.gridObl = append(ex.gridObl, "(< (iabs "+term+") 9007199254740992)")
}

func (ex *Explorer) declare(name string, v symv) symv {
	if old, ok := ex.declKind[name]; ok {
		return old
	}
	z := ex.solver()
	q := "|" + name + "|"
	switch {
	case v.k == kBool:
		z.send("(declare-const " + q + " Bool)")
	case v.k == kInt && v.bv != "":
		z.send("(declare-const |" + name + "!bv| (_ BitVec 64))")
		z.send("(define-fun " + q + " () Int " + bvToInt("|"+name+"!bv|") + ")")
		v.bv = "|" + name + "!bv|"
	case v.k == kInt:
		z.send("(declare-const " + q + " Int)")
	case v.k == kF64 && v.g != nil:
		z.send("(declare-const " + q + " Int)")
	case v.k == kF64:
		z.send("(declare-const |" + name + "!bits| (_ BitVec 64))")
		z.send("(define-fun " + q + " () (_ FloatingPoint 11 53) ((_ to_fp 11 53) |" + name + "!bits|))")
	}
	v.e = q
	v.ex = ex
	ex.declKind[name] = v
	ex.decls = append(ex.decls, name)
	return v
}

// decide resolves a symbolic branch condition.
func (ex *Explorer) decide(c symv) bool {
	if c.e == "true" {
		return true
	}
	if c.e == "false" {
		return false
	}
	n := len(ex.taken)
	if n < len(ex.prefix) {
		d := ex.prefix[n]
		if d.IsK {
			panic(pathAbort{"harness", "decision vector mismatch (bool vs value) — nondeterministic re-execution"})
		}
		ex.taken = append(ex.taken, d)
		ex.assume(c, d.B)
		return d.B
	}
	rt := ex.checkPop(c.e)
	if rt == "unsat" {
		// pc is satisfiable by construction, so the negation is feasible
		ex.taken = append(ex.taken, Dec{B: false})
		ex.assume(c, false)
		return false
	}
	rf := ex.checkPop("(not " + c.e + ")")
	switch {
	case rf == "unsat":
		ex.taken = append(ex.taken, Dec{B: true})
		ex.assume(c, true)
		return true
	default:
		// both feasible (or unknown: kept, conservatively)
		alt := append(append([]Dec{}, ex.taken...), Dec{B: false})
		ex.pending = append(ex.pending, alt)
		ex.taken = append(ex.taken, Dec{B: true})
		ex.assume(c, true)
		return true
	}
}

func (ex *Explorer) assume(c symv, d bool) {
	if d {
		ex.assertTerm(c.e)
	} else {
		ex.assertTerm("(not " + c.e + ")")
	}
}

const maxConcretize = 400

// concretize case-splits a symbolic integer over its feasible values.  The
// split is a pivot tree (v < k | v = k | v > k around a model value k) so that
// the sub-ranges are explored by different workers.
func (ex *Explorer) concretize(v symv) value {
	if v.k == kBool {
		return ex.decide(v)
	}
	if v.k != kInt {
		unsupported("concretize: non-integer")
	}
	rel := func(op string, k *big.Int) string {
		if v.bv != "" {
			bop := map[string]string{"<": "bvslt", ">": "bvsgt", "=": "="}[op]
			return "(" + bop + " " + v.bv + " " + bvLit(k) + ")"
		}
		return "(" + op + " " + v.e + " " + blit(k) + ")"
	}
	for cnt := 0; ; cnt++ {
		n := len(ex.taken)
		if n < len(ex.prefix) {
			d := ex.prefix[n]
			if !d.IsK {
				panic(pathAbort{"harness", "decision vector mismatch (value vs bool) — nondeterministic re-execution"})
			}
			ex.taken = append(ex.taken, d)
			k := parseIntValue(d.K)
			ex.assertTerm(rel(d.Rel, k))
			if d.Rel == "=" {
				return goInt(v.bk, k)
			}
			continue
		}
		if cnt > maxConcretize {
			unsupported("concretize: more than %d splits for %s", maxConcretize, v.e)
		}
		r := ex.check("")
		if r != "sat" {
			ex.pop()
			if r == "unsat" {
				panic(pathAbort{"assume", "no further value"})
			}
			unsupported("concretize: solver answered %s", r)
		}
		qterm := v.e
		if v.bv != "" {
			qterm = v.bv
		}
		ans := ex.z.getValues([]string{qterm})
		ex.pop()
		sx := parseSexp(ans)
		val := sx.list[0].list[1].String()
		var k *big.Int
		if v.bv != "" {
			k = parseBVValue(val)
		} else {
			k = parseIntValue(val)
		}
		if k == nil {
			unsupported("concretize: cannot parse model value %q", val)
		}
		lit := blit(k)
		for _, op := range []string{"<", ">"} {
			if ex.checkPop(rel(op, k)) != "unsat" {
				alt := append(append([]Dec{}, ex.taken...), Dec{K: lit, IsK: true, Rel: op})
				ex.pending = append(ex.pending, alt)
			}
		}
		ex.taken = append(ex.taken, Dec{B: true, K: lit, IsK: true, Rel: "="})
		ex.assertTerm(rel("=", k))
		return goInt(v.bk, k)
	}
}

// concretizeIn case-splits v over [lo,hi]; every value below lo is represented
// by lo-1 and every value above hi by hi+1 (one path each), which is enough for
// bounds-checked uses: the operation that follows panics exactly as in Go.
func (ex *Explorer) concretizeIn(v symv, lo, hi int64) value {
	if ex.decide(mkBool(ex, "(< "+v.e+" "+ilit(lo)+")")) {
		return goInt(v.bk, big.NewInt(lo-1))
	}
	if ex.decide(mkBool(ex, "(> "+v.e+" "+ilit(hi)+")")) {
		return goInt(v.bk, big.NewInt(hi+1))
	}
	return ex.concretize(v)
}

// parseBVValue reads #x.. / #b.. as a signed 64-bit value.
func parseBVValue(s string) *big.Int {
	s = strings.TrimSpace(s)
	k := new(big.Int)
	switch {
	case strings.HasPrefix(s, "#x"):
		if _, ok := k.SetString(s[2:], 16); !ok {
			return nil
		}
	case strings.HasPrefix(s, "#b"):
		if _, ok := k.SetString(s[2:], 2); !ok {
			return nil
		}
	default:
		return nil
	}
	if k.Bit(63) == 1 {
		k.Sub(k, new(big.Int).Lsh(big.NewInt(1), 64))
	}
	return k
}

func parseIntValue(s string) *big.Int {
	s = strings.TrimSpace(s)
	neg := false
	if strings.HasPrefix(s, "(-") {
		neg = true
		s = strings.TrimSpace(strings.TrimSuffix(strings.TrimPrefix(s, "(-"), ")"))
	}
	if strings.HasSuffix(s, ".0") {
		s = strings.TrimSuffix(s, ".0")
	}
	k, ok := new(big.Int).SetString(s, 10)
	if !ok {
		return nil
	}
	if neg {
		k.Neg(k)
	}
	return k
}

// model reads the values of all declared inputs (call inside an open sat frame).
func (ex *Explorer) model() map[string]string {
	m := map[string]string{}
	for k, v := range ex.hints {
		m[k] = v // concrete replay hints recorded by the harness (vHint)
	}
	if len(ex.decls) == 0 {
		return m
	}
	var terms []string
	for _, n := range ex.decls {
		v := ex.declKind[n]
		if v.k == kF64 && v.g == nil {
			terms = append(terms, "|"+n+"!bits|")
		} else {
			terms = append(terms, "|"+n+"|")
		}
	}
	ans := parseSexp(ex.z.getValues(terms))
	for i, n := range ex.decls {
		if i >= len(ans.list) {
			break
		}
		val := ans.list[i].list[1].String()
		v := ex.declKind[n]
		switch {
		case v.k == kBool:
			m[n] = val
		case v.k == kF64 && v.g == nil:
			m[n] = "f64bits:" + strings.TrimPrefix(val, "#x")
		case v.k == kF64:
			k := parseIntValue(val)
			if k == nil {
				m[n] = "?" + val
			} else {
				m[n] = fmt.Sprintf("grid:%s/2^%d", k.String(), v.g.scale)
			}
		default:
			k := parseIntValue(val)
			if k == nil {
				m[n] = "?" + val
			} else {
				m[n] = k.String()
			}
		}
	}
	return m
}

func (ex *Explorer) knownFor(label string) (ids []string, terms []string) {
	bare := label
	if i := strings.Index(label, "/"); i >= 0 {
		bare = label[i+1:]
	}
	for _, r := range ex.regions {
		for _, k := range ex.S.Known {
			if k.ID != r.id {
				continue
			}
			for _, l := range k.Labels {
				if l == bare || l == label || l == "*" {
					ids = append(ids, r.id)
					terms = append(terms, r.e)
				}
			}
		}
	}
	return
}

// reportViolation decides new-vs-known for a failing condition `neg`
// (a term that is satisfiable together with pc when the property fails).
func (ex *Explorer) reportFailing(label, kind, detail, neg string) {
	ids, regs := ex.knownFor(label)
	s := ex.S
	record := func(knownID string) {
		m := ex.model()
		v := Violation{Harness: s.Harness, Label: label, Kind: kind, Detail: detail, Model: m, KnownID: knownID, Nondet: ex.noSample, Path: append([]Dec{}, ex.taken...)}
		s.mu.Lock()
		if knownID == "" {
			if !s.violSeen[label] {
				s.violSeen[label] = true
				s.Viol = append(s.Viol, v)
			}
		} else if _, ok := s.KnownHits[knownID]; !ok {
			s.KnownHits[knownID] = v
		}
		s.mu.Unlock()
	}
	if len(regs) == 0 {
		r := ex.check(neg)
		defer ex.crossCheck(neg, r, label)
		if r == "sat" {
			record("")
		} else if r == "unknown" {
			ex.inconclusive("assertion " + label + ": solver answered unknown")
		} else {
			ex.discharged(label)
		}
		ex.pop()
		return
	}
	outside := "(and " + neg
	for _, t := range regs {
		outside += " (not " + t + ")"
	}
	outside += ")"
	r := ex.check(outside)
	if r == "sat" {
		record("")
	} else if r == "unknown" {
		ex.inconclusive("assertion " + label + ": solver answered unknown")
	} else {
		ex.discharged(label)
	}
	ex.pop()
	for k, t := range regs {
		s.mu.Lock()
		_, have := s.KnownHits[ids[k]]
		s.mu.Unlock()
		if have {
			continue
		}
		if ex.check("(and "+neg+" "+t+")") == "sat" {
			record(ids[k])
		}
		ex.pop()
	}
}

func (ex *Explorer) discharged(label string) {
	ex.S.mu.Lock()
	ex.S.AssertsByLbl[label]++
	ex.S.Discharged++
	ex.S.mu.Unlock()
}

func (ex *Explorer) inconclusive(msg string) {
	ex.S.mu.Lock()
	if len(ex.S.Inconclusive) < 50 {
		ex.S.Inconclusive = append(ex.S.Inconclusive, msg)
	}
	ex.S.mu.Unlock()
}

// RunPath executes the harness once under the given decision prefix.
func (ex *Explorer) RunPath(prefix []Dec) (outcome string) {
	s := ex.S
	ex.prefix = prefix
	ex.taken = nil
	ex.pending = nil
	ex.decls = nil
	ex.declKind = map[string]symv{}
	ex.auxN = 0
	ex.steps = 0
	ex.regions = nil
	ex.gridObl = nil
	ex.obs = nil
	ex.asserted = nil
	ex.obsConc = map[string]string{}
	ex.funcs = map[string]bool{}
	ex.stubsUsed = map[string]bool{}
	ex.queries = 0
	ex.solverTime = 0
	ex.panicWhere = ""
	ex.noSample = false
	ex.hints = nil
	ex.permN = 0
	z := ex.solver()
	z.send("(push 1)")
	i := &interpreter{
		prog:       s.Prog,
		globals:    make(map[*ssa.Global]*value),
		sizes:      s.Sizes,
		goroutines: 1,
		ex:         ex,
	}
	if s.Trace {
		i.mode |= EnableTracing
	}
	ex.i = i
	i.runtimeErrorString = s.Prog.ImportedPackage("runtime").Type("errorString").Object().Type()
	initReflectShared(i)

	finish := func() {
		// exactness obligations of grid floats
		if len(ex.gridObl) > 0 && !strings.HasPrefix(outcome, "pruned") && !strings.HasPrefix(outcome, "unsupported") {
			r := ex.checkPop("(not (and " + strings.Join(ex.gridObl, " ") + "))")
			if r != "unsat" {
				outcome = "unsupported: grid-float exactness obligation not provable (" + r + ")"
			}
		}
		if strings.HasPrefix(outcome, "panic") {
			ex.reportFailing(s.PropPrefix+"/panic", "panic", outcome, "true")
		}
		if strings.HasPrefix(outcome, "budget") {
			ex.reportFailing(s.PropPrefix+"/hang", "hang", outcome, "true")
		}
		if strings.HasPrefix(outcome, "unsupported") || strings.HasPrefix(outcome, "solver") || strings.HasPrefix(outcome, "harness") || strings.HasPrefix(outcome, "engine") {
			ex.inconclusive(outcome)
		}
		var smp *Sample
		if outcome == "ok" {
			s.mu.Lock()
			want := len(s.Samples) < s.WantSample && !ex.noSample
			s.mu.Unlock()
			if want {
				if ex.check("") == "sat" {
					smp = &Sample{Harness: s.Harness, Outcome: outcome, Decision: len(ex.taken), Model: ex.model(), Observed: map[string]string{}}
					var terms []string
					for _, o := range ex.obs {
						terms = append(terms, o.term)
					}
					if len(terms) > 0 {
						ans := parseSexp(ex.z.getValues(terms))
						for k, o := range ex.obs {
							if k < len(ans.list) {
								val := ans.list[k].list[1].String()
								if b := parseIntValue(val); b != nil {
									val = b.String()
								}
								smp.Observed[o.label] = val
							}
						}
					}
					for k, v := range ex.obsConc {
						smp.Observed[k] = v
					}
					// which assertions does this particular input violate?
					fail := map[string]bool{}
					var aterms []string
					var alabels []string
					for _, a := range ex.asserted {
						if a.term == "false" {
							fail[a.label] = true
						} else {
							aterms = append(aterms, a.term)
							alabels = append(alabels, a.label)
						}
					}
					if len(aterms) > 0 {
						ans := parseSexp(ex.z.getValues(aterms))
						for k := range aterms {
							if k < len(ans.list) && ans.list[k].list[1].String() == "false" {
								fail[alabels[k]] = true
							}
						}
					}
					for l := range fail {
						smp.Failing = append(smp.Failing, l)
					}
					sort.Strings(smp.Failing)
				}
				ex.pop()
			}
		}
		z.send("(pop 1)")
		s.mu.Lock()
		s.Paths++
		s.Decisions += int64(len(ex.taken))
		if len(ex.taken) > s.MaxDecisions {
			s.MaxDecisions = len(ex.taken)
		}
		s.Queries += ex.queries
		s.SolverTime += ex.solverTime
		key := outcome
		if len(key) > 160 {
			key = key[:160]
		}
		s.Outcomes[key]++
		for f := range ex.funcs {
			s.Funcs[f] = true
		}
		for f := range ex.stubsUsed {
			s.StubsUsed[f] = true
		}
		if smp != nil && len(s.Samples) < s.WantSample {
			s.Samples = append(s.Samples, *smp)
		}
		s.mu.Unlock()
	}

	defer func() {
		r := recover()
		i.killGoroutines() // no interpreted goroutine outlives its path
		if r != nil {
			switch r := r.(type) {
			case pathAbort:
				switch r.kind {
				case "assume":
					outcome = "pruned: " + r.why
				case "budget":
					outcome = "budget: " + r.why
				default:
					outcome = r.kind + ": " + r.why
				}
			case SolverError:
				outcome = "solver: " + r.Msg
				if ex.z != nil {
					ex.z.close()
					ex.z = nil
				}
				// account without touching the dead solver
				s.mu.Lock()
				s.Paths++
				s.Outcomes[outcome]++
				if len(s.Inconclusive) < 50 {
					s.Inconclusive = append(s.Inconclusive, outcome)
				}
				s.mu.Unlock()
				return
			case targetPanic:
				outcome = "panic: " + toString(r.v) + " @ " + ex.panicWhere
			case *runtime.TypeAssertionError:
				// a dynamic-type confusion inside the interpreter itself: an engine gap, not a verdict
				outcome = "engine: " + r.Error() + " @ " + ex.panicWhere
			case runtime.Error:
				outcome = "panic: " + r.Error() + " @ " + ex.panicWhere
				if os.Getenv("VERIF_DEBUG") != "" {
					buf := make([]byte, 8192)
					buf = buf[:runtime.Stack(buf, false)]
					fmt.Fprintf(os.Stderr, "%s\n%s\n", outcome, buf)
				}
			case error:
				outcome = "panic: " + r.Error() + " @ " + ex.panicWhere
			default:
				// interpreter-internal failure: never a verdict about the code
				buf := make([]byte, 4096)
				buf = buf[:runtime.Stack(buf, false)]
				outcome = fmt.Sprintf("engine: %v", r)
				if s.Trace {
					fmt.Fprintf(os.Stderr, "%s\n%s\n", outcome, buf)
				}
			}
		}
		func() {
			defer func() {
				if r := recover(); r != nil {
					if se, ok := r.(SolverError); ok {
						ex.inconclusive("solver: " + se.Msg)
						if ex.z != nil {
							ex.z.close()
							ex.z = nil
						}
						s.mu.Lock()
						s.Paths++
						s.Outcomes["solver: "+se.Msg]++
						s.mu.Unlock()
						return
					}
					panic(r)
				}
			}()
			finish()
		}()
	}()

	for _, f := range s.ExtraInits {
		call(i, nil, token.NoPos, f, nil)
	}
	call(i, nil, token.NoPos, s.Fn.Pkg.Func("init"), nil)
	if s.Arg != nil {
		call(i, nil, token.NoPos, s.Fn, []value{*s.Arg})
	} else {
		call(i, nil, token.NoPos, s.Fn, nil)
	}
	i.drain() // goroutines still runnable when the harness returns run on (their panics count)
	return "ok"
}

// Explore runs the whole harness with `workers` parallel workers.
func (s *Session) Explore(workers int) {
	s.init()
	if s.StepBudget == 0 {
		s.StepBudget = 2_000_000
	}
	if s.TimeoutS == 0 {
		s.TimeoutS = 20
	}
	var mu sync.Mutex
	cond := sync.NewCond(&mu)
	work := [][]Dec{nil}
	busy := 0
	stop := false
	var wg sync.WaitGroup
	for w := 0; w < workers; w++ {
		wg.Add(1)
		go func(id int) {
			defer wg.Done()
			ex := &Explorer{S: s, id: id}
			defer func() {
				if ex.z != nil {
					ex.z.close()
				}
				if ex.qlog != nil {
					ex.qlog.Close()
				}
			}()
			for {
				mu.Lock()
				for len(work) == 0 && busy > 0 && !stop {
					cond.Wait()
				}
				if stop || (len(work) == 0 && busy == 0) {
					mu.Unlock()
					cond.Broadcast()
					return
				}
				p := work[len(work)-1]
				work = work[:len(work)-1]
				busy++
				mu.Unlock()

				ex.RunPath(p)

				mu.Lock()
				busy--
				work = append(work, ex.pending...)
				if s.MaxPaths > 0 && s.Paths >= s.MaxPaths {
					stop = true
					s.Inconclusive = append(s.Inconclusive, fmt.Sprintf("path limit %d reached", s.MaxPaths))
				}
				mu.Unlock()
				cond.Broadcast()
			}
		}(w)
	}
	wg.Wait()
}

// SortedFuncs lists the core functions that were symbolically executed.
func (s *Session) SortedFuncs() []string {
	var out []string
	for f := range s.Funcs {
		out = append(out, f)
	}
	sort.Strings(out)
	return out
}

// ---- deterministic map iteration ----

func (i *interpreter) noteKey(k value) {
	switch k := k.(type) {
	case *value:
		if i.ptrSeq == nil {
			i.ptrSeq = map[*value]int{}
		}
		if _, ok := i.ptrSeq[k]; !ok {
			i.ptrSeq[k] = len(i.ptrSeq) + 1
		}
	case iface:
		i.noteKey(k.v)
	}
}

// keyLess is a deterministic total order on map keys that does not depend on
// addresses: numbers and strings by value, pointers by first use as a key.
func (i *interpreter) keyLess(a, b value) bool {
	switch a := a.(type) {
	case string:
		if bs, ok := b.(string); ok {
			return a < bs
		}
		if _, ok := b.(*symKey); ok {
			return true
		}
	case *value:
		if bp, ok := b.(*value); ok {
			return i.ptrSeq[a] < i.ptrSeq[bp]
		}
	case iface:
		if bi, ok := b.(iface); ok {
			ta, tb := "", ""
			if a.t != nil {
				ta = a.t.String()
			}
			if bi.t != nil {
				tb = bi.t.String()
			}
			if ta != tb {
				return ta < tb
			}
			return i.keyLess(a.v, bi.v)
		}
	case structure:
		if bs, ok := b.(structure); ok {
			for k := range a {
				if k >= len(bs) {
					return false
				}
				if i.keyLess(a[k], bs[k]) {
					return true
				}
				if i.keyLess(bs[k], a[k]) {
					return false
				}
			}
			return false
		}
	case bool:
		if bb, ok := b.(bool); ok {
			return !a && bb
		}
	case *symKey: // after every concrete string, by first insertion
		if bk, ok := b.(*symKey); ok {
			return a.seq < bk.seq
		}
		return false
	case float64:
		if bf, ok := b.(float64); ok {
			return a < bf
		}
	}
	if _, la, ok := concIntLit(a); ok {
		if _, lb, ok := concIntLit(b); ok {
			x, _ := new(big.Int).SetString(strings.Trim(strings.ReplaceAll(strings.ReplaceAll(la, "(- ", "-"), ")", ""), " "), 10)
			y, _ := new(big.Int).SetString(strings.Trim(strings.ReplaceAll(strings.ReplaceAll(lb, "(- ", "-"), ")", ""), " "), 10)
			return x.Cmp(y) < 0
		}
	}
	return fmt.Sprintf("%T", a)+toString(a) < fmt.Sprintf("%T", b)+toString(b)
}

type sortedMapIter struct {
	keys []value
	get  func(k value) (value, bool)
	i    int
}

func newSortedMapIter(in *interpreter, m map[value]value) iter {
	it := &sortedMapIter{get: func(k value) (value, bool) { v, ok := m[k]; return v, ok }}
	for k := range m {
		it.keys = append(it.keys, k)
	}
	sort.SliceStable(it.keys, func(a, b int) bool { return in.keyLess(it.keys[a], it.keys[b]) })
	return it
}

func newSortedHashmapIter(in *interpreter, m *hashmap) iter {
	it := &sortedMapIter{get: func(k value) (value, bool) {
		v := m.lookup(k.(hashable))
		return v, v != nil
	}}
	for _, e := range m.entries() {
		for ; e != nil; e = e.next {
			it.keys = append(it.keys, e.key)
		}
	}
	sort.SliceStable(it.keys, func(a, b int) bool { return in.keyLess(it.keys[a], it.keys[b]) })
	return it
}

func (it *sortedMapIter) next() tuple {
	for it.i < len(it.keys) {
		k := it.keys[it.i]
		it.i++
		// entries deleted during iteration are skipped, as in Go
		if v, ok := it.get(k); ok {
			return []value{true, unwrapKey(k), v}
		}
	}
	return []value{false, nil, nil}
}

// ---- abstract byte slices with symbolic length (no element access) ----

// symSlice is a []byte whose length is a symbolic integer: only len, cap,
// re-slicing (bounds-checked, out-of-range as its own panicking path) and
// passing around are defined.  off is the offset from the start of the base.
type symSlice struct {
	ex            *Explorer
	base          int
	off, ln, capv value // int or symv(Int)
}

func (s symSlice) reslice(lo, hi, max value) value {
	ex := s.ex
	if lo == nil {
		lo = 0
	}
	if hi == nil {
		hi = s.ln
	}
	capEnd := s.capv
	if max != nil {
		capEnd = max
	}
	check := func(c value) bool {
		if b, ok := c.(bool); ok {
			return b
		}
		return ex.decide(c.(symv))
	}
	// 0 <= lo <= hi <= cap
	if check(binop(token.LSS, nil, lo, 0)) || check(binop(token.GTR, nil, lo, hi)) || check(binop(token.GTR, nil, hi, capEnd)) {
		panic(rtErr{"slice bounds out of range"})
	}
	return symSlice{ex: ex, base: s.base,
		off:  binop(token.ADD, nil, s.off, lo),
		ln:   binop(token.SUB, nil, hi, lo),
		capv: binop(token.SUB, nil, capEnd, lo)}
}

// permuteKeys reorders the keys of a map iteration by a symbolic permutation.
func (ex *Explorer) permuteKeys(sm *sortedMapIter) {
	left := append([]value{}, sm.keys...)
	var out []value
	for len(left) > 1 {
		ex.permN++
		v := ex.declare(fmt.Sprintf("map_order!%d", ex.permN), symv{k: kInt, bk: types.Int})
		ex.assertTerm(fmt.Sprintf("(and (>= %s 0) (< %s %d))", v.e, v.e, len(left)))
		k := ex.concretize(v).(int)
		out = append(out, left[k])
		left = append(left[:k], left[k+1:]...)
	}
	sm.keys = append(out, left...)
}

// computeNeedInit finds the globals that a skipped package initialiser would have set.
func (s *Session) computeNeedInit() {
	s.NeedInit = map[*ssa.Global]bool{}
	var root func(v ssa.Value) *ssa.Global
	root = func(v ssa.Value) *ssa.Global {
		switch v := v.(type) {
		case *ssa.Global:
			return v
		case *ssa.IndexAddr:
			return root(v.X)
		case *ssa.FieldAddr:
			return root(v.X)
		}
		return nil
	}
	for _, pkg := range s.Prog.AllPackages() {
		if pkg.Pkg == nil || InitAllow(pkg.Pkg.Path()) {
			continue
		}
		if s.Stubs != nil && s.Stubs.ZeroPkgs[pkg.Pkg.Path()] {
			continue
		}
		initFn := pkg.Func("init")
		if initFn == nil {
			continue
		}
		todo := []*ssa.Function{initFn}
		seen := map[*ssa.Function]bool{initFn: true}
		for len(todo) > 0 {
			fn := todo[0]
			todo = todo[1:]
			for _, b := range fn.Blocks {
				for _, in := range b.Instrs {
					switch in := in.(type) {
					case *ssa.Store:
						if g := root(in.Addr); g != nil && g.Pkg == pkg {
							s.NeedInit[g] = true
						}
					case *ssa.Call:
						// explicit func init() bodies (init#1 ...)
						if c := in.Call.StaticCallee(); c != nil && c.Pkg == pkg && strings.HasPrefix(c.Name(), "init#") && !seen[c] {
							seen[c] = true
							todo = append(todo, c)
						}
					}
				}
			}
		}
	}
}
