// Copyright 2013 The Go Authors. All rights reserved.
// Use of this source code is governed by a BSD-style
// license that can be found in the LICENSE file.

package interp

// Custom hashtable atop map.
// For use when the key's equivalence relation is not consistent with ==.

// The Go specification doesn't address the atomicity of map operations.
// The FAQ states that an implementation is permitted to crash on
// concurrent map access.

import (
	"go/types"
)

type hashable interface {
	hash(t types.Type) int
	eq(t types.Type, x interface{}) bool
}

type entry struct {
	key   hashable
	value value
	next  *entry
}

// A hashtable atop the built-in map.  Since each bucket contains
// exactly one hash value, there's no need to perform hash-equality
// tests when walking the linked list.  Rehashing is done by the
// underlying map.
type hashmap struct {
	keyType types.Type
	table   map[int]*entry
	length  int // number of entries in map
}

// makeMap returns an empty initialized map of key type kt,
// preallocating space for reserve elements.
func makeMap(kt types.Type, reserve int64) value {
	if usesBuiltinMap(kt) {
		return make(map[value]value, reserve)
	}
	return &hashmap{keyType: kt, table: make(map[int]*entry, reserve)}
}

// delete removes the association for key k, if any.
func (m *hashmap) delete(k hashable) {
	if m != nil {
		hash := k.hash(m.keyType)
		head := m.table[hash]
		if head != nil {
			if k.eq(m.keyType, head.key) {
				m.table[hash] = head.next
				m.length--
				return
			}
			prev := head
			for e := head.next; e != nil; e = e.next {
				if k.eq(m.keyType, e.key) {
					prev.next = e.next
					m.length--
					return
				}
				prev = e
			}
		}
	}
}

// lookup returns the value associated with key k, if present, or
// value(nil) otherwise.
func (m *hashmap) lookup(k hashable) value {
	if m != nil {
		hash := k.hash(m.keyType)
		for e := m.table[hash]; e != nil; e = e.next {
			if k.eq(m.keyType, e.key) {
				return e.value
			}
		}
	}
	return nil
}

// insert updates the map to associate key k with value v.  If there
// was already an association for an eq() (though not necessarily ==)
// k, the previous key remains in the map and its associated value is
// updated.
func (m *hashmap) insert(k hashable, v value) {
	hash := k.hash(m.keyType)
	head := m.table[hash]
	for e := head; e != nil; e = e.next {
		if k.eq(m.keyType, e.key) {
			e.value = v
			return
		}
	}
	m.table[hash] = &entry{
		key:   k,
		value: v,
		next:  head,
	}
	m.length++
}

// len returns the number of key/value associations in the map.
func (m *hashmap) len() int {
	if m != nil {
		return m.length
	}
	return 0
}

// entries returns a rangeable map of entries.
func (m *hashmap) entries() map[int]*entry {
	if m != nil {
		return m.table
	}
	return nil
}
