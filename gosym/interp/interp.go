// Copyright 2013 The Go Authors. All rights reserved.
// Use of this source code is governed by a BSD-style
// license that can be found in the LICENSE file.

// Package ssa/interp defines an interpreter for the SSA
// representation of Go programs.
//
// This interpreter is provided as an adjunct for testing the SSA
// construction algorithm.  Its purpose is to provide a minimal
// metacircular implementation of the dynamic semantics of each SSA
// instruction.  It is not, and will never be, a production-quality Go
// interpreter.
//
// The following is a partial list of Go features that are currently
// unsupported or incomplete in the interpreter.
//
// * Unsafe operations, including all uses of unsafe.Pointer, are
// impossible to support given the "boxed" value representation we
// have chosen.
//
// * The reflect package is only partially implemented.
//
// * The "testing" package is no longer supported because it
// depends on low-level details that change too often.
//
// * "sync/atomic" operations are not atomic due to the "boxed" value
// representation: it is not possible to read, modify and write an
// interface value atomically. As a consequence, Mutexes are currently
// broken.
//
// * recover is only partially implemented.  Also, the interpreter
// makes no attempt to distinguish target panics from interpreter
// crashes.
//
// * the sizes of the int, uint and uintptr types in the target
// program are assumed to be the same as those of the interpreter
// itself.
//
// * all values occupy space, even those of types defined by the spec
// to have zero size, e.g. struct{}.  This can cause asymptotic
// performance degradation.
//
// * os.Exit is implemented using panic, causing deferred functions to
// run.
package interp // import "golang.org/x/tools/go/ssa/interp"

import (
	"fmt"
	"go/token"
	"go/types"
	"log"
	"os"
	"runtime"
	"slices"
	"strings"
	"sync/atomic"
	_ "unsafe"

	"golang.org/x/tools/go/ssa"
)

type continuation int

const (
	kNext continuation = iota
	kReturn
	kJump
)

// Mode is a bitmask of options affecting the interpreter.
type Mode uint

const (
	DisableRecover Mode = 1 << iota // Disable recover() in target programs; show interpreter crash instead.
	EnableTracing                   // Print a trace of all instructions as they are interpreted.
)

type methodSet map[string]*ssa.Function

// State shared between all interpreted goroutines.
type interpreter struct {
	osArgs             []value                // the value of os.Args
	prog               *ssa.Program           // the SSA program
	globals            map[*ssa.Global]*value // addresses of global variables (immutable)
	mode               Mode                   // interpreter options
	reflectPackage     *ssa.Package           // the fake reflect package
	errorMethods       methodSet              // the method set of reflect.error, which implements the error interface.
	rtypeMethods       methodSet              // the method set of rtype, which implements the reflect.Type interface.
	runtimeErrorString types.Type             // the runtime.errorString type
	sizes              types.Sizes            // the effective type-sizing function
	goroutines         int32                  // atomically updated
	ex                 *Explorer              // symbolic exploration state (per worker)
	ptrSeq             map[*value]int         // first-use-as-map-key order of pointers (deterministic iteration)
	jsonHeap           []jsonEntry            // modelled json.Marshal results
	syncMaps           map[*value]*[]smEntry  // modelled sync.Map contents
	sc                 *sched                 // cooperative goroutine scheduler (sched.go)
}

type deferred struct {
	fn    value
	args  []value
	instr *ssa.Defer
	tail  *deferred
}

type frame struct {
	i                *interpreter
	caller           *frame
	fn               *ssa.Function
	block, prevBlock *ssa.BasicBlock
	env              map[ssa.Value]value // dynamic values of SSA variables
	locals           []value
	defers           *deferred
	result           value
	panicking        bool
	panic            interface{}
	phitemps         []value // temporaries for parallel phi assignment
	curInstr         ssa.Instruction
}

func (fr *frame) get(key ssa.Value) value {
	switch key := key.(type) {
	case nil:
		// Hack; simplifies handling of optional attributes
		// such as ssa.Slice.{Low,High}.
		return nil
	case *ssa.Function, *ssa.Builtin:
		return key
	case *ssa.Const:
		return constValue(key)
	case *ssa.Global:
		if ex := fr.i.ex; ex != nil && ex.S.NeedInit[key] {
			// its initialiser lives in a package init the executor does not run:
			// reading the zero value instead would silently change the program
			unsupported("global %s is used but the initialiser of package %s is not executed", key.Name(), key.Pkg.Pkg.Path())
		}
		if r, ok := fr.i.globals[key]; ok {
			return r
		}
		cell := zero(typeparams.MustDeref(key.Type()))
		fr.i.globals[key] = &cell
		return &cell
	}
	if r, ok := fr.env[key]; ok {
		return r
	}
	panic(fmt.Sprintf("get: no value for %T: %v", key, key.Name()))
}

// runDefer runs a deferred call d.
// It always returns normally, but may set or clear fr.panic.
func (fr *frame) runDefer(d *deferred) {
	if fr.i.mode&EnableTracing != 0 {
		fmt.Fprintf(os.Stderr, "%s: invoking deferred function call\n",
			fr.i.prog.Fset.Position(d.instr.Pos()))
	}
	var ok bool
	defer func() {
		if !ok {
			// Deferred call created a new state of panic.
			fr.panicking = true
			fr.panic = recover()
		}
	}()
	call(fr.i, fr, d.instr.Pos(), d.fn, d.args)
	ok = true
}

// runDefers executes fr's deferred function calls in LIFO order.
//
// On entry, fr.panicking indicates a state of panic; if
// true, fr.panic contains the panic value.
//
// On completion, if a deferred call started a panic, or if no
// deferred call recovered from a previous state of panic, then
// runDefers itself panics after the last deferred call has run.
//
// If there was no initial state of panic, or it was recovered from,
// runDefers returns normally.
func (fr *frame) runDefers() {
	for d := fr.defers; d != nil; d = d.tail {
		fr.runDefer(d)
	}
	fr.defers = nil
	if fr.panicking {
		panic(fr.panic) // new panic, or still panicking
	}
}

// lookupMethod returns the method set for type typ, which may be one
// of the interpreter's fake types.
func lookupMethod(i *interpreter, typ types.Type, meth *types.Func) *ssa.Function {
	switch typ {
	case rtypeType:
		return i.rtypeMethods[meth.Id()]
	case errorType:
		return i.errorMethods[meth.Id()]
	}
	return i.prog.LookupMethod(typ, meth.Pkg(), meth.Name())
}

// visitInstr interprets a single ssa.Instruction within the activation
// record frame.  It returns a continuation value indicating where to
// read the next instruction from.
func visitInstr(fr *frame, instr ssa.Instruction) continuation {
	switch instr := instr.(type) {
	case *ssa.DebugRef:
		// no-op

	case *ssa.UnOp:
		x := fr.get(instr.X)
		if instr.Op == token.ARROW {
			ch, _ := x.(*mchan)
			v, ok := fr.i.chanRecv(fr.i.prog.Fset.Position(instr.Pos()).String(), ch)
			if !ok {
				v = zero(instr.X.Type().Underlying().(*types.Chan).Elem())
			}
			if instr.CommaOk {
				v = tuple{v, ok}
			}
			fr.env[instr] = v
			break
		}
		fr.env[instr] = unop(instr, x)

	case *ssa.BinOp:
		fr.env[instr] = binop(instr.Op, instr.X.Type(), fr.get(instr.X), fr.get(instr.Y))

	case *ssa.Call:
		fn, args := prepareCall(fr, &instr.Call)
		fr.env[instr] = call(fr.i, fr, instr.Pos(), fn, args)

	case *ssa.ChangeInterface:
		fr.env[instr] = fr.get(instr.X)

	case *ssa.ChangeType:
		fr.env[instr] = fr.get(instr.X) // (can't fail)

	case *ssa.Convert:
		fr.env[instr] = conv(instr.Type(), instr.X.Type(), fr.get(instr.X))

	case *ssa.SliceToArrayPointer:
		fr.env[instr] = sliceToArrayPointer(instr.Type(), instr.X.Type(), fr.get(instr.X))

	case *ssa.MakeInterface:
		fr.env[instr] = iface{t: instr.X.Type(), v: fr.get(instr.X)}

	case *ssa.Extract:
		fr.env[instr] = fr.get(instr.Tuple).(tuple)[instr.Index]

	case *ssa.Slice:
		lo, hi, mx := fr.get(instr.Low), fr.get(instr.High), fr.get(instr.Max)
		if _, abstract := fr.get(instr.X).(symSlice); abstract {
			fr.env[instr] = slice(fr.get(instr.X), lo, hi, mx)
			return kNext
		}
		if isSym(hi) || isSym(lo) || isSym(mx) {
			// all out-of-range values of a symbolic bound form one (panicking) path
			capX := int64(0)
			switch x := fr.get(instr.X).(type) {
			case string:
				capX = int64(len(x))
			case []value:
				capX = int64(cap(x))
			case *value:
				capX = int64(cap((*x).(array)))
			}
			if sv, ok := hi.(symv); ok {
				hi = sv.ex.concretizeIn(sv, 0, capX)
			}
			if sv, ok := lo.(symv); ok {
				lo = sv.ex.concretizeIn(sv, 0, capX)
			}
			if sv, ok := mx.(symv); ok {
				mx = sv.ex.concretizeIn(sv, 0, capX)
			}
		}
		fr.env[instr] = slice(fr.get(instr.X), lo, hi, mx)

	case *ssa.Return:
		switch len(instr.Results) {
		case 0:
		case 1:
			fr.result = fr.get(instr.Results[0])
		default:
			var res []value
			for _, r := range instr.Results {
				res = append(res, fr.get(r))
			}
			if ex := fr.i.ex; ex != nil && ex.S.ReloadReturn != nil {
				for _, k := range ex.S.ReloadReturn[instr.Pos()] {
					switch r := instr.Results[k].(type) {
					case *ssa.UnOp:
						if r.Op == token.MUL {
							res[k] = load(typeparams.MustDeref(r.X.Type()), fr.get(r.X).(*value))
						}
					case *ssa.MakeInterface: // `return v, f()` with an interface-typed result
						if ld, ok := r.X.(*ssa.UnOp); ok && ld.Op == token.MUL {
							res[k] = iface{t: r.X.Type(), v: load(typeparams.MustDeref(ld.X.Type()), fr.get(ld.X).(*value))}
						}
					}
				}
			}
			fr.result = tuple(res)
		}
		fr.block = nil
		return kReturn

	case *ssa.RunDefers:
		fr.runDefers()

	case *ssa.Panic:
		panic(targetPanic{fr.get(instr.X)})

	case *ssa.Send:
		sch, _ := fr.get(instr.Chan).(*mchan)
		fr.i.chanSend(fr.i.prog.Fset.Position(instr.Pos()).String(), sch, fr.get(instr.X))

	case *ssa.Store:
		store(typeparams.MustDeref(instr.Addr.Type()), fr.get(instr.Addr).(*value), fr.get(instr.Val))

	case *ssa.If:
		succ := 1
		cv := fr.get(instr.Cond)
		var cb bool
		if sc, ok := cv.(symv); ok {
			cb = sc.ex.decide(sc)
		} else {
			cb = cv.(bool)
		}
		if cb {
			succ = 0
		}
		fr.prevBlock, fr.block = fr.block, fr.block.Succs[succ]
		return kJump

	case *ssa.Jump:
		fr.prevBlock, fr.block = fr.block, fr.block.Succs[0]
		return kJump

	case *ssa.Defer:
		fn, args := prepareCall(fr, &instr.Call)
		defers := &fr.defers
		if into := fr.get(instr.DeferStack); into != nil {
			defers = into.(**deferred)
		}
		*defers = &deferred{
			fn:    fn,
			args:  args,
			instr: instr,
			tail:  *defers,
		}

	case *ssa.Go:
		fn, args := prepareCall(fr, &instr.Call)
		_ = atomic.AddInt32
		if fr.i.ex != nil {
			fr.i.spawn(fr, instr.Pos(), fn, args) // cooperative scheduler (sched.go); eager unless the session says lazy
		} else {
			unsupported("go statement at %s (no scheduler model)", fr.i.prog.Fset.Position(instr.Pos()))
		}

	case *ssa.MakeChan:
		fr.env[instr] = &mchan{capacity: int(asInt64(fr.get(instr.Size)))}

	case *ssa.Alloc:
		var addr *value
		if instr.Heap {
			// new
			addr = new(value)
			fr.env[instr] = addr
		} else {
			// local
			addr = fr.env[instr].(*value)
		}
		*addr = zero(typeparams.MustDeref(instr.Type()))

	case *ssa.MakeSlice:
		for _, op := range []ssa.Value{instr.Len, instr.Cap} {
			if sv, ok := fr.get(op).(symv); ok {
				fr.env[op] = sv.ex.concretize(sv)
			}
		}
		if asInt64(fr.get(instr.Len)) < 0 || asInt64(fr.get(instr.Cap)) < asInt64(fr.get(instr.Len)) {
			panic(rtErr{"makeslice: len out of range"})
		}
		if asInt64(fr.get(instr.Cap)) > 1<<20 {
			unsupported("makeslice: capacity %d too large for the interpreter", asInt64(fr.get(instr.Cap)))
		}
		slice := make([]value, asInt64(fr.get(instr.Cap)))
		tElt := instr.Type().Underlying().(*types.Slice).Elem()
		for i := range slice {
			slice[i] = zero(tElt)
		}
		fr.env[instr] = slice[:asInt64(fr.get(instr.Len))]

	case *ssa.MakeMap:
		var reserve int64
		if instr.Reserve != nil {
			if _, ok := fr.get(instr.Reserve).(symv); !ok {
				reserve = asInt64(fr.get(instr.Reserve))
			}
		}
		if !fitsInt(reserve, fr.i.sizes) {
			panic(fmt.Sprintf("ssa.MakeMap.Reserve value %d does not fit in int", reserve))
		}
		fr.env[instr] = makeMap(instr.Type().Underlying().(*types.Map).Key(), reserve)

	case *ssa.Range:
		it := rangeIter(fr.i, fr.get(instr.X), instr.X.Type())
		if ex := fr.i.ex; ex != nil && len(ex.S.PermuteRanges) > 0 {
			if sm, ok := it.(*sortedMapIter); ok && len(sm.keys) >= 2 && len(sm.keys) <= 3 && ex.S.PermuteRanges[fr.fn.String()] {
				// Go iterates maps in random order: here the order is a symbolic
				// permutation (one forked path per order)
				ex.permuteKeys(sm)
			}
		}
		fr.env[instr] = it

	case *ssa.Next:
		fr.env[instr] = fr.get(instr.Iter).(iter).next()

	case *ssa.FieldAddr:
		fr.env[instr] = &(*fr.get(instr.X).(*value)).(structure)[instr.Field]

	case *ssa.Field:
		fr.env[instr] = fr.get(instr.X).(structure)[instr.Field]

	case *ssa.IndexAddr: // idxconc
		if sv, ok := fr.get(instr.Index).(symv); ok {
			n := int64(0)
			switch x := fr.get(instr.X).(type) {
			case []value:
				n = int64(len(x))
			case *value:
				n = int64(len((*x).(array)))
			}
			fr.env[instr.Index] = sv.ex.concretizeIn(sv, 0, n-1)
		}
		x := fr.get(instr.X)
		idx := fr.get(instr.Index)
		switch x := x.(type) {
		case []value:
			fr.env[instr] = &x[asInt64(idx)]
		case *value: // *array
			fr.env[instr] = &(*x).(array)[asInt64(idx)]
		default:
			panic(fmt.Sprintf("unexpected x type in IndexAddr: %T", x))
		}

	case *ssa.Index:
		x := fr.get(instr.X)
		idx := fr.get(instr.Index)
		if sv, ok := idx.(symv); ok {
			idx = sv.ex.concretize(sv)
		}

		switch x := x.(type) {
		case array:
			fr.env[instr] = x[asInt64(idx)]
		case symString:
			fr.env[instr] = x[asInt64(idx)]
		case string:
			fr.env[instr] = x[asInt64(idx)]
		default:
			panic(fmt.Sprintf("unexpected x type in Index: %T", x))
		}

	case *ssa.Lookup:
		lidx := fr.get(instr.Index)
		if sv, ok := lidx.(symv); ok {
			lidx = sv.ex.concretize(sv)
		}
		fr.env[instr] = lookup(instr, fr.get(instr.X), lidx)

	case *ssa.MapUpdate:
		m := fr.get(instr.Map)
		key := fr.get(instr.Key)
		if sv, ok := key.(symv); ok {
			key = sv.ex.concretize(sv)
		}
		v := fr.get(instr.Value)
		fr.i.noteKey(key)
		switch m := m.(type) {
		case map[value]value:
			k, _ := mapFindKey(m, key)
			m[k] = v
		case *hashmap:
			m.insert(key.(hashable), v)
		default:
			panic(fmt.Sprintf("illegal map type: %T", m))
		}

	case *ssa.TypeAssert:
		fr.env[instr] = typeAssert(fr.i, instr, fr.get(instr.X).(iface))

	case *ssa.MakeClosure:
		var bindings []value
		for _, binding := range instr.Bindings {
			bindings = append(bindings, fr.get(binding))
		}
		fr.env[instr] = &closure{instr.Fn.(*ssa.Function), bindings}

	case *ssa.Phi:
		log.Fatal("unreachable") // phis are processed at block entry

	case *ssa.Select:
		// one selection over the cases, first ready case in source order (chan.go)
		var cases []*chanCase
		for k, st := range instr.States {
			ch, _ := fr.get(st.Chan).(*mchan)
			c := &chanCase{idx: k, ch: ch, send: st.Dir != types.RecvOnly}
			if c.send {
				c.val = fr.get(st.Send)
			}
			cases = append(cases, c)
		}
		chosen, recv, recvOk := fr.i.selectCases("select at "+fr.i.prog.Fset.Position(instr.Pos()).String(), cases, instr.Blocking)
		r := tuple{chosen, recvOk}
		for k, st := range instr.States {
			if st.Dir == types.RecvOnly {
				var v value
				if k == chosen && recvOk {
					v = recv
				} else {
					v = zero(st.Chan.Type().Underlying().(*types.Chan).Elem())
				}
				r = append(r, v)
			}
		}
		fr.env[instr] = r

	default:
		panic(fmt.Sprintf("unexpected instruction: %T", instr))
	}

	// if val, ok := instr.(ssa.Value); ok {
	// 	fmt.Println(toString(fr.env[val])) // debugging
	// }

	return kNext
}

// prepareCall determines the function value and argument values for a
// function call in a Call, Go or Defer instruction, performing
// interface method lookup if needed.
func prepareCall(fr *frame, call *ssa.CallCommon) (fn value, args []value) {
	v := fr.get(call.Value)
	if call.Method == nil {
		// Function call.
		fn = v
	} else {
		// Interface method invocation.
		recv := v.(iface)
		if recv.t == nil {
			panic("method invoked on nil interface")
		}
		if f := lookupMethod(fr.i, recv.t, call.Method); f == nil {
			// Unreachable in well-typed programs.
			panic(fmt.Sprintf("method set for dynamic type %v does not contain %s", recv.t, call.Method))
		} else {
			fn = f
		}
		args = append(args, recv.v)
	}
	for _, arg := range call.Args {
		args = append(args, fr.get(arg))
	}
	return
}

// call interprets a call to a function (function, builtin or closure)
// fn with arguments args, returning its result.
// callpos is the position of the callsite.
func call(i *interpreter, caller *frame, callpos token.Pos, fn value, args []value) value {
	switch fn := fn.(type) {
	case *ssa.Function:
		if fn == nil {
			panic(rtErr{"invalid memory address or nil pointer dereference (call of nil function)"}) // nil of func type
		}
		return callSSA(i, caller, callpos, fn, args, nil)
	case *closure:
		return callSSA(i, caller, callpos, fn.Fn, args, fn.Env)
	case *ssa.Builtin:
		return callBuiltin(caller, callpos, fn, args)
	case nativeFn:
		return fn(args)
	}
	panic(fmt.Sprintf("cannot call %T", fn))
}

func loc(fset *token.FileSet, pos token.Pos) string {
	if pos == token.NoPos {
		return ""
	}
	return " at " + fset.Position(pos).String()
}

// callSSA interprets a call to function fn with arguments args,
// and lexical environment env, returning its result.
// callpos is the position of the callsite.
var InitAllow = func(string) bool { return true }

func callSSA(i *interpreter, caller *frame, callpos token.Pos, fn *ssa.Function, args []value, env []value) value {
	if i.mode&EnableTracing != 0 {
		fset := fn.Prog.Fset
		// TODO(adonovan): fix: loc() lies for external functions.
		fmt.Fprintf(os.Stderr, "Entering %s%s.\n", fn, loc(fset, fn.Pos()))
		suffix := ""
		if caller != nil {
			suffix = ", resuming " + caller.fn.String() + loc(fset, callpos)
		}
		defer fmt.Fprintf(os.Stderr, "Leaving %s%s.\n", fn, suffix)
	}
	if fn.Name() == "init" && fn.Pkg != nil && fn.Parent() == nil && fn.Synthetic != "" && !InitAllow(fn.Pkg.Pkg.Path()) {
		return nil
	}
	if r, handled := dispatchStub(i, caller, fn, args); handled {
		return r
	}
	return callSSAraw(i, caller, callpos, fn, args, env)
}

// dispatchStub applies intrinsics, the stub table and externals.
func dispatchStub(i *interpreter, caller *frame, fn *ssa.Function, args []value) (value, bool) {
	ex := i.ex
	if fn.Parent() != nil {
		return nil, false
	}
	name := fn.String()
	if ex != nil {
		if fn.Pkg != nil && ex.S.IntrinsicPkgs[fn.Pkg.Pkg.Path()] && strings.HasPrefix(fn.Name(), "v") {
			if r, ok := ex.intrinsic(caller, fn.Name(), args); ok {
				return r, true
			}
		}
		st := ex.S.Stubs
		if st != nil {
			if tgt, ok := st.Redirect[name]; ok && tgt != fn {
				ex.stubsUsed[name+" => "+tgt.String()] = true
				return callSSA(i, caller, token.NoPos, tgt, args, nil), true
			}
			if nf, ok := st.Native[name]; ok {
				ex.stubsUsed[name+" (native model)"] = true
				return nf(i, caller, fn, args), true
			}
			if o := fn.Origin(); o != nil && o != fn {
				if nf, ok := st.Native[o.String()]; ok {
					ex.stubsUsed[o.String()+" (native model)"] = true
					return nf(i, caller, fn, args), true
				}
			}
			if st.ZeroFns[name] {
				ex.stubsUsed[name+" (empty body)"] = true
				return stubZero(fn), true
			}
			pk := fn.Pkg
			if pk == nil && fn.Origin() != nil {
				pk = fn.Origin().Pkg
			}
			if pk != nil && st.ZeroPkgs[pk.Pkg.Path()] {
				ex.stubsUsed[pk.Pkg.Path()+".* (empty bodies)"] = true
				return stubZero(fn), true
			}
		}
	}
	if ext := externals[name]; ext != nil {
		fr := &frame{i: i, caller: caller, fn: fn}
		return ext(fr, args), true
	}
	if fn.Blocks == nil {
		unsupported("no code for function: %s (called from %s)", name, frameChain(caller))
	}
	return nil, false
}

func callSSAraw(i *interpreter, caller *frame, callpos token.Pos, fn *ssa.Function, args []value, env []value) value {
	fr := &frame{
		i:      i,
		caller: caller, // for panic/recover
		fn:     fn,
	}
	if i.ex != nil && fn.Pkg != nil && strings.HasPrefix(fn.Pkg.Pkg.Path(), "github.com/projecteru2/core") {
		i.ex.funcs[fn.String()] = true
	}
	if fn.Blocks == nil {
		unsupported("no code for function: %s", fn.String())
	}

	// generic function body?
	if fn.TypeParams().Len() > 0 && len(fn.TypeArgs()) == 0 {
		panic("interp requires ssa.BuilderMode to include InstantiateGenerics to execute generics")
	}

	fr.env = make(map[ssa.Value]value)
	fr.block = fn.Blocks[0]
	fr.locals = make([]value, len(fn.Locals))
	for i, l := range fn.Locals {
		fr.locals[i] = zero(typeparams.MustDeref(l.Type()))
		fr.env[l] = &fr.locals[i]
	}
	for i, p := range fn.Params {
		fr.env[p] = args[i]
	}
	for i, fv := range fn.FreeVars {
		fr.env[fv] = env[i]
	}
	for fr.block != nil {
		runFrame(fr)
	}
	// Destroy the locals to avoid accidental use after return.
	for i := range fn.Locals {
		fr.locals[i] = bad{}
	}
	return fr.result
}

// runFrame executes SSA instructions starting at fr.block and
// continuing until a return, a panic, or a recovered panic.
//
// After a panic, runFrame panics.
//
// After a normal return, fr.result contains the result of the call
// and fr.block is nil.
//
// A recovered panic in a function without named return parameters
// (NRPs) becomes a normal return of the zero value of the function's
// result type.
//
// After a recovered panic in a function with NRPs, fr.result is
// undefined and fr.block contains the block at which to resume
// control.
func runFrame(fr *frame) {
	defer func() {
		if fr.block == nil {
			return // normal return
		}
		if fr.i.mode&DisableRecover != 0 {
			return // let interpreter crash
		}
		if fr.i.sc != nil && fr.i.sc.killed {
			return // the path is over: unwind without running any interpreted code
		}
		fr.panicking = true
		fr.panic = recover()
		if ex := fr.i.ex; ex != nil && ex.panicWhere == "" {
			pos := ""
			if fr.curInstr != nil {
				pos = fr.i.prog.Fset.Position(fr.curInstr.Pos()).String()
			}
			ex.panicWhere = pos + " in " + frameChain(fr)
		}
		if fr.i.mode&EnableTracing != 0 {
			fmt.Fprintf(os.Stderr, "Panicking: %T %v.\n", fr.panic, fr.panic)
		}
		fr.runDefers()
		fr.block = fr.fn.Recover
	}()

	for {
		if fr.i.mode&EnableTracing != 0 {
			fmt.Fprintf(os.Stderr, ".%s:\n", fr.block)
		}

		nonPhis := executePhis(fr)
		for _, instr := range nonPhis {
			if fr.i.mode&EnableTracing != 0 {
				if v, ok := instr.(ssa.Value); ok {
					fmt.Fprintln(os.Stderr, "\t", v.Name(), "=", instr)
				} else {
					fmt.Fprintln(os.Stderr, "\t", instr)
				}
			}
			if ex := fr.i.ex; ex != nil {
				ex.steps++
				if ex.steps > ex.S.StepBudget {
					panic(pathAbort{"budget", fmt.Sprintf("step budget %d exceeded in %s", ex.S.StepBudget, fr.fn)})
				}
			}
			fr.curInstr = instr
			if visitInstr(fr, instr) == kReturn {
				return
			}
			// Inv: kNext (continue) or kJump (last instr)
		}
	}
}

// executePhis executes the phi-nodes at the start of the current
// block and returns the non-phi instructions.
func executePhis(fr *frame) []ssa.Instruction {
	firstNonPhi := -1
	for i, instr := range fr.block.Instrs {
		if _, ok := instr.(*ssa.Phi); !ok {
			firstNonPhi = i
			break
		}
	}
	// Inv: 0 <= firstNonPhi; every block contains a non-phi.

	nonPhis := fr.block.Instrs[firstNonPhi:]
	if firstNonPhi > 0 {
		phis := fr.block.Instrs[:firstNonPhi]
		// Execute parallel assignment of phis.
		//
		// See "the swap problem" in Briggs et al's "Practical Improvements
		// to the Construction and Destruction of SSA Form" for discussion.
		predIndex := slices.Index(fr.block.Preds, fr.prevBlock)
		fr.phitemps = fr.phitemps[:0]
		for _, phi := range phis {
			phi := phi.(*ssa.Phi)
			if fr.i.mode&EnableTracing != 0 {
				fmt.Fprintln(os.Stderr, "\t", phi.Name(), "=", phi)
			}
			fr.phitemps = append(fr.phitemps, fr.get(phi.Edges[predIndex]))
		}
		for i, phi := range phis {
			fr.env[phi.(*ssa.Phi)] = fr.phitemps[i]
		}
	}
	return nonPhis
}

// doRecover implements the recover() built-in.
func doRecover(caller *frame) value {
	// recover() must be exactly one level beneath the deferred
	// function (two levels beneath the panicking function) to
	// have any effect.  Thus we ignore both "defer recover()" and
	// "defer f() -> g() -> recover()".
	if caller != nil && caller.caller != nil && caller.caller.panicking {
		switch caller.caller.panic.(type) {
		case pathAbort, SolverError:
			return iface{} // engine control flow is invisible to the target program
		}
	}
	if caller.i.mode&DisableRecover == 0 &&
		caller != nil && !caller.panicking &&
		caller.caller != nil && caller.caller.panicking {
		caller.caller.panicking = false
		p := caller.caller.panic
		caller.caller.panic = nil

		// TODO(adonovan): support runtime.Goexit.
		switch p := p.(type) {
		case targetPanic:
			// The target program explicitly called panic().
			return p.v
		case runtime.Error:
			// The interpreter encountered a runtime error.
			return iface{caller.i.runtimeErrorString, p.Error()}
		case error:
			return iface{caller.i.runtimeErrorString, p.Error()}
		case string:
			// The interpreter explicitly called panic().
			return iface{caller.i.runtimeErrorString, p}
		default:
			panic(fmt.Sprintf("unexpected panic type %T in target call to recover()", p))
		}
	}
	return iface{}
}

// Interpret interprets the Go program whose main package is mainpkg.
// mode specifies various interpreter options.  filename and args are
// the initial values of os.Args for the target program.  sizes is the
// effective type-sizing function for this program.
//
// Interpret returns the exit code of the program: 2 for panic (like
// gc does), or the argument to os.Exit for normal termination.
//
// The SSA program must include the "runtime" package.
//
// Type parameterized functions must have been built with
// InstantiateGenerics in the ssa.BuilderMode to be interpreted.
func Interpret(mainpkg *ssa.Package, mode Mode, sizes types.Sizes, filename string, args []string) (exitCode int) {
	i := &interpreter{
		prog:       mainpkg.Prog,
		globals:    make(map[*ssa.Global]*value),
		mode:       mode,
		sizes:      sizes,
		goroutines: 1,
	}
	runtimePkg := i.prog.ImportedPackage("runtime")
	if runtimePkg == nil {
		panic("ssa.Program doesn't include runtime package")
	}
	i.runtimeErrorString = runtimePkg.Type("errorString").Object().Type()

	initReflect(i)

	i.osArgs = append(i.osArgs, filename)
	for _, arg := range args {
		i.osArgs = append(i.osArgs, arg)
	}

	for _, pkg := range i.prog.AllPackages() {
		// Initialize global storage.
		for _, m := range pkg.Members {
			switch v := m.(type) {
			case *ssa.Global:
				cell := zero(typeparams.MustDeref(v.Type()))
				i.globals[v] = &cell
			}
		}
	}

	// Top-level error handler.
	exitCode = 2
	defer func() {
		if exitCode != 2 || i.mode&DisableRecover != 0 {
			return
		}
		switch p := recover().(type) {
		case exitPanic:
			exitCode = int(p)
			return
		case targetPanic:
			fmt.Fprintln(os.Stderr, "panic:", toString(p.v))
		case runtime.Error:
			fmt.Fprintln(os.Stderr, "panic:", p.Error())
		case string:
			fmt.Fprintln(os.Stderr, "panic:", p)
		default:
			fmt.Fprintf(os.Stderr, "panic: unexpected type: %T: %v\n", p, p)
		}

		// TODO(adonovan): dump panicking interpreter goroutine?
		// buf := make([]byte, 0x10000)
		// runtime.Stack(buf, false)
		// fmt.Fprintln(os.Stderr, string(buf))
		// (Or dump panicking target goroutine?)
	}()

	// Run!
	call(i, nil, token.NoPos, mainpkg.Func("init"), nil)
	if mainFn := mainpkg.Func("main"); mainFn != nil {
		call(i, nil, token.NoPos, mainFn, nil)
		exitCode = 0
	} else {
		fmt.Fprintln(os.Stderr, "No main function.")
		exitCode = 1
	}
	return
}

func frameChain(fr *frame) string {
	var parts []string
	for k := 0; fr != nil && k < 8; k++ {
		parts = append(parts, fr.fn.String())
		fr = fr.caller
	}
	return strings.Join(parts, " <- ")
}
