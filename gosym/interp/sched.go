package interp

// Cooperative goroutine scheduler (DESIGN.md §7: schedules).
//
// Every interpreted goroutine runs on its own host goroutine, but only one of
// them runs at any time: control is handed over explicitly (a baton).  A
// goroutine gives up control only where it blocks (channel receive, select,
// semaphore acquire: WaitGroup.Wait, Mutex.Lock), where it spawns another
// goroutine, and where it ends.  Which runnable goroutine continues is fixed by
// the session's policy -
//
//	eager: a spawned goroutine runs at once; when one blocks or ends, the most
//	       recently spawned runnable one continues (the parent, usually);
//	lazy:  the spawning side continues; when it blocks, the oldest runnable
//	       goroutine continues -
//
// and, for the first Session.SchedChoices scheduling points that have more than
// one candidate, by a SYMBOLIC choice (one explored path per candidate).
// Blocking with no runnable goroutine left is a deadlock: the path ends as a
// hang.  Sends never block (channels are FIFO queues, as before).

import (
	"fmt"
	"go/token"
	"go/types"
	"sync"
)

type gor struct {
	id    int
	wake  chan struct{}
	done  bool
	ready func() bool // non-nil while blocked
	what  string
}

type sched struct {
	gors       []*gor
	cur        *gor
	killed     bool
	live       sync.WaitGroup // host goroutines of this path
	abort      interface{}    // panic value of a goroutine, re-raised on the main one
	choices    int
	selChoices int
	yields     int // vYield calls so far on this path
	preempts   int // preemptions taken so far
}

func (i *interpreter) scheduler() *sched {
	if i.sc == nil {
		main := &gor{id: 0, wake: make(chan struct{}, 1)}
		i.sc = &sched{gors: []*gor{main}, cur: main}
	}
	return i.sc
}

// runnable lists the goroutines that could continue now, except `not`.
func (sc *sched) runnable(not *gor) []*gor {
	var out []*gor
	for _, g := range sc.gors {
		if g.done || g == not {
			continue
		}
		if g.ready == nil || g.ready() {
			out = append(out, g)
		}
	}
	return out
}

// pick chooses among candidates (policy order, or a symbolic choice).
func (i *interpreter) pick(cands []*gor, preferred *gor) *gor {
	if len(cands) == 0 {
		return nil
	}
	sc := i.sc
	s := i.ex.S
	if len(cands) > 1 && sc.choices < s.SchedChoices {
		sc.choices++
		v := i.ex.declare(fmt.Sprintf("sched_choice_%d", sc.choices), symv{k: kInt, bk: types.Int})
		i.ex.assertTerm(fmt.Sprintf("(and (>= %s 0) (< %s %d))", v.e, v.e, len(cands)))
		k := i.ex.concretize(v).(int)
		return cands[k]
	}
	if preferred != nil {
		return preferred
	}
	if s.LazyGo {
		return cands[0] // oldest
	}
	return cands[len(cands)-1] // most recently spawned
}

// switchTo hands the baton to next and parks the current goroutine.
func (i *interpreter) switchTo(next *gor) {
	sc := i.sc
	me := sc.cur
	if next == me {
		return
	}
	sc.cur = next
	next.wake <- struct{}{}
	<-me.wake
	if sc.killed {
		panic(gorKilled{}) // unwinds this host goroutine without running interpreted code
	}
	if sc.abort != nil && me.id == 0 {
		r := sc.abort
		sc.abort = nil
		panic(r)
	}
}

// spawn implements the go statement.
func (i *interpreter) spawn(fr *frame, pos token.Pos, fn value, args []value) {
	sc := i.scheduler()
	g := &gor{id: len(sc.gors), wake: make(chan struct{}, 1)}
	sc.gors = append(sc.gors, g)
	sc.live.Add(1)
	go func() {
		defer sc.live.Done()
		<-g.wake
		if sc.killed {
			return
		}
		defer func() {
			r := recover()
			g.done = true
			if sc.killed {
				return
			}
			main := sc.gors[0]
			if r != nil {
				// an uncaught panic (or an engine abort) ends the whole program: deliver it to main
				sc.abort = r
				sc.cur = main
				main.wake <- struct{}{}
				return
			}
			next := i.pick(sc.runnable(g), nil)
			if next == nil {
				if main.done {
					return // the harness has returned and nothing can run any more
				}
				sc.abort = pathAbort{"budget", "deadlock: every remaining goroutine is blocked (" + sc.blockedList() + ")"}
				next = main
			}
			sc.cur = next
			next.wake <- struct{}{}
		}()
		call(i, nil, pos, fn, args)
	}()
	// scheduling point: the child, or the spawning side
	cands := sc.runnable(nil)
	var pref *gor
	if i.ex.S.LazyGo {
		pref = sc.cur
	} else {
		pref = g
	}
	i.switchTo(i.pick(cands, pref))
}

func (sc *sched) blockedList() string {
	s := ""
	for _, g := range sc.gors {
		if !g.done && g.ready != nil {
			s += fmt.Sprintf("g%d: %s; ", g.id, g.what)
		}
	}
	return s
}

// block parks the current goroutine until ready() holds.
func (i *interpreter) block(what string, ready func() bool) {
	if ready() {
		return
	}
	sc := i.scheduler()
	me := sc.cur
	for !ready() {
		me.ready, me.what = ready, what
		next := i.pick(sc.runnable(me), nil)
		if next == nil {
			me.ready = nil
			panic(pathAbort{"budget", "deadlock: " + what + " can never proceed, every goroutine is blocked (" + sc.blockedList() + ")"})
		}
		i.switchTo(next)
		me.ready = nil
	}
}

// drain lets every other goroutine run until all of them have ended or are blocked.
func (i *interpreter) drain() {
	if i.sc == nil {
		return
	}
	for {
		c := i.sc.runnable(i.sc.cur)
		if len(c) == 0 {
			return
		}
		i.switchTo(i.pick(c, nil))
	}
}

type gorKilled struct{}

// killGoroutines ends every parked host goroutine of a finished path and waits for them.
func (i *interpreter) killGoroutines() {
	sc := i.sc
	if sc == nil {
		return
	}
	sc.killed = true
	for _, g := range sc.gors[1:] {
		if !g.done {
			select {
			case g.wake <- struct{}{}:
			default:
			}
		}
	}
	sc.live.Wait()
}

// yield implements the vYield intrinsic: a scheduling point at which the
// running goroutine stays runnable.  By default it simply continues; while the
// session's preemption budget lasts, a symbolic Boolean decides whether another
// runnable goroutine takes over here (one explored path each way) - bounded
// preemption at the granularity the harness chooses (the model's external calls).
func (i *interpreter) yield() {
	sc := i.sc
	if sc == nil || i.ex.S.Preemptions == 0 {
		return
	}
	sc.yields++
	if sc.preempts >= i.ex.S.Preemptions {
		return
	}
	others := sc.runnable(sc.cur)
	if len(others) == 0 {
		return
	}
	v := i.ex.declare(fmt.Sprintf("preempt_at_yield_%d", sc.yields), symv{k: kBool})
	if !i.ex.decide(v) {
		return
	}
	sc.preempts++
	next := others[0]
	if len(others) > 1 {
		w := i.ex.declare(fmt.Sprintf("preempt_to_%d", sc.yields), symv{k: kInt, bk: types.Int})
		i.ex.assertTerm(fmt.Sprintf("(and (>= %s 0) (< %s %d))", w.e, w.e, len(others)))
		next = others[i.ex.concretize(w).(int)]
	}
	i.switchTo(next)
}
