package interp

// Symbolic scalar values and their operators.
//
// Integers: SMT Int terms kept inside the range of their Go type, every
// operator re-establishes the range with an explicit two's-complement wrap
// ("int-wrap" encoding of DESIGN.md §2.2) — machine-exact, decided by linear
// arithmetic.
// Floats: either IEEE (SMT FloatingPoint, RNE) or "grid" values
// coef·T·2^-scale with an Int term T; every grid operation records the
// obligation |mantissa| < 2^53 under which it is bit-identical to IEEE.

import (
	"fmt"
	"go/token"
	"go/types"
	"math"
	"math/big"
	"strings"
)

type skind uint8

const (
	kBool skind = iota
	kInt
	kF64
)

type grid struct {
	coef  *big.Int // concrete factor (never nil)
	scale int      // value = coef * T * 2^-scale
	// den != nil: an exact fraction (coef*T*2^-scale)/den, den > 0 — the value of a
	// division by a constant before IEEE rounding.  Only comparisons are defined
	// on it (by cross-multiplication of the exact numerators); rounding of the
	// quotient itself is outside the claim.
	den *big.Int
}

type symv struct {
	ex *Explorer
	k  skind
	bk types.BasicKind // kInt: Go integer kind; kF64: Float64
	e  string          // SMT term (Bool / Int / FloatingPoint / Int mantissa for grid)
	g  *grid           // non-nil => grid float
	// bad != "": a float the grid domain cannot represent exactly (e.g. a
	// quotient of two symbolic values).  It may be stored and copied, but any
	// comparison, conversion or observation of it aborts the path as unsupported.
	bad string
	// bv != "": a (_ BitVec 64) term with the same (signed) value, kept for
	// integers that meet IEEE floats so that those queries stay in BV+FP.
	bv string
}

func isSym(v value) bool { _, ok := v.(symv); return ok }

func new2pow(n int) string { return new(big.Int).Lsh(big.NewInt(1), uint(n)).String() }
func subOne(s string) string {
	b, _ := new(big.Int).SetString(s, 10)
	return b.Sub(b, big.NewInt(1)).String()
}

func ilit(x int64) string {
	if x < 0 {
		return "(- " + new(big.Int).Neg(big.NewInt(x)).String() + ")"
	}
	return fmt.Sprintf("%d", x)
}
func ulit(x uint64) string { return fmt.Sprintf("%d", x) }
func blit(b *big.Int) string {
	if b.Sign() < 0 {
		return "(- " + new(big.Int).Neg(b).String() + ")"
	}
	return b.String()
}
func fplit(f float64) string {
	return fmt.Sprintf("((_ to_fp 11 53) #x%016x)", math.Float64bits(f))
}

type intInfo struct {
	bits   int
	signed bool
}

// bitwise spells a bit-wise operator on two integer terms of at most 16 bits as a sum
// over the bit positions (Int encoding: bit i of x is (x div 2^i) mod 2 on the
// unsigned image of x).  Wider operands are left unsupported.
func bitwise(op token.Token, x, y string, ii intInfo) string {
	if ii.bits > 16 {
		return ""
	}
	full := new2pow(ii.bits)
	ux := "(mod " + x + " " + full + ")"
	uy := "(mod " + y + " " + full + ")"
	var terms []string
	for i := 0; i < ii.bits; i++ {
		p := new2pow(i)
		bx := "(= (mod (div " + ux + " " + p + ") 2) 1)"
		by := "(= (mod (div " + uy + " " + p + ") 2) 1)"
		var c string
		switch op {
		case token.OR:
			c = "(or " + bx + " " + by + ")"
		case token.AND:
			c = "(and " + bx + " " + by + ")"
		case token.XOR:
			c = "(xor " + bx + " " + by + ")"
		case token.AND_NOT:
			c = "(and " + bx + " (not " + by + "))"
		default:
			return ""
		}
		terms = append(terms, "(ite "+c+" "+p+" 0)")
	}
	sum := "(+ " + strings.Join(terms, " ") + ")"
	if ii.signed {
		half := new2pow(ii.bits - 1)
		return "(ite (>= " + sum + " " + half + ") (- " + sum + " " + full + ") " + sum + ")"
	}
	return sum
}

func infoOf(bk types.BasicKind) intInfo {
	switch bk {
	case types.Int, types.Int64, types.UntypedInt:
		return intInfo{64, true}
	case types.Int8:
		return intInfo{8, true}
	case types.Int16:
		return intInfo{16, true}
	case types.Int32, types.UntypedRune:
		return intInfo{32, true}
	case types.Uint, types.Uint64, types.Uintptr:
		return intInfo{64, false}
	case types.Uint8:
		return intInfo{8, false}
	case types.Uint16:
		return intInfo{16, false}
	case types.Uint32:
		return intInfo{32, false}
	}
	panic(fmt.Sprintf("infoOf: not an integer kind %v", bk))
}

func (ii intInfo) rng() (lo, hi *big.Int) {
	if ii.signed {
		hi = new(big.Int).Lsh(big.NewInt(1), uint(ii.bits-1))
		lo = new(big.Int).Neg(hi)
		hi = new(big.Int).Sub(hi, big.NewInt(1))
		return
	}
	hi = new(big.Int).Lsh(big.NewInt(1), uint(ii.bits))
	hi.Sub(hi, big.NewInt(1))
	return big.NewInt(0), hi
}

func (ii intInfo) wrap1(t string) string { // single-step
	if ii.signed {
		return fmt.Sprintf("(wrapS%d %s)", ii.bits, t)
	}
	return fmt.Sprintf("(wrapU%d %s)", ii.bits, t)
}
func (ii intInfo) wrapm(t string) string { // general
	if ii.signed {
		return fmt.Sprintf("(wrapmS%d %s)", ii.bits, t)
	}
	return fmt.Sprintf("(wrapmU%d %s)", ii.bits, t)
}

// concrete integer -> (kind, literal)
func concIntLit(v value) (types.BasicKind, string, bool) {
	switch v := v.(type) {
	case int:
		return types.Int, ilit(int64(v)), true
	case int8:
		return types.Int8, ilit(int64(v)), true
	case int16:
		return types.Int16, ilit(int64(v)), true
	case int32:
		return types.Int32, ilit(int64(v)), true
	case int64:
		return types.Int64, ilit(v), true
	case uint:
		return types.Uint, ulit(uint64(v)), true
	case uint8:
		return types.Uint8, ulit(uint64(v)), true
	case uint16:
		return types.Uint16, ulit(uint64(v)), true
	case uint32:
		return types.Uint32, ulit(uint64(v)), true
	case uint64:
		return types.Uint64, ulit(v), true
	case uintptr:
		return types.Uintptr, ulit(uint64(v)), true
	}
	return 0, "", false
}

// goInt builds a concrete Go value of integer kind bk from x.
func goInt(bk types.BasicKind, x *big.Int) value {
	switch bk {
	case types.Int, types.UntypedInt:
		return int(x.Int64())
	case types.Int8:
		return int8(x.Int64())
	case types.Int16:
		return int16(x.Int64())
	case types.Int32, types.UntypedRune:
		return int32(x.Int64())
	case types.Int64:
		return x.Int64()
	case types.Uint:
		return uint(x.Uint64())
	case types.Uint8:
		return uint8(x.Uint64())
	case types.Uint16:
		return uint16(x.Uint64())
	case types.Uint32:
		return uint32(x.Uint64())
	case types.Uint64:
		return x.Uint64()
	case types.Uintptr:
		return uintptr(x.Uint64())
	}
	panic("goInt: bad kind")
}

// toSym lifts a concrete scalar next to a symbolic peer.
func toSym(ex *Explorer, v value, peer *symv) symv {
	switch v := v.(type) {
	case symv:
		return v
	case bool:
		if v {
			return symv{ex: ex, k: kBool, e: "true"}
		}
		return symv{ex: ex, k: kBool, e: "false"}
	case float64:
		if peer != nil && peer.g != nil {
			return gridConst(ex, v)
		}
		return symv{ex: ex, k: kF64, bk: types.Float64, e: fplit(v)}
	}
	if bk, lit, ok := concIntLit(v); ok {
		return symv{ex: ex, k: kInt, bk: bk, e: lit}
	}
	unsupported("toSym: cannot lift %T next to a symbolic value", v)
	return symv{}
}

// unsupported aborts the current path as inconclusive (never a pass).
func unsupported(format string, args ...interface{}) {
	panic(pathAbort{kind: "unsupported", why: fmt.Sprintf(format, args...)})
}

func mkBool(ex *Explorer, e string) symv { return symv{ex: ex, k: kBool, e: e} }

func symBinop(op token.Token, t types.Type, x, y value) value {
	var ex *Explorer
	var peer *symv
	if sx, ok := x.(symv); ok {
		ex = sx.ex
		peer = &sx
	}
	if sy, ok := y.(symv); ok {
		ex = sy.ex
		if peer == nil || (peer.g == nil && sy.g != nil) {
			peer = &sy
		}
	}
	// shifts: the count operand has its own type
	if op == token.SHL || op == token.SHR {
		return symShift(ex, op, x, y)
	}
	a, b := toSym(ex, x, peer), toSym(ex, y, peer)
	if a.bad != "" || b.bad != "" {
		why := a.bad + b.bad
		switch op {
		case token.ADD, token.SUB, token.MUL, token.QUO:
			return symv{ex: ex, k: kF64, bk: types.Float64, e: "0", g: &grid{coef: big.NewInt(1)}, bad: why}
		}
		unsupported("comparison of an inexact grid float (%s)", why)
	}
	if a.k != b.k {
		unsupported("symBinop: kind mismatch %v %v", a.k, b.k)
	}
	bin := func(o string) string { return "(" + o + " " + a.e + " " + b.e + ")" }
	switch a.k {
	case kInt:
		ii := infoOf(a.bk)
		res := func(e string) value { return ex.name(symv{ex: ex, k: kInt, bk: a.bk, e: e}) }
		switch op {
		case token.ADD:
			return res(ii.wrap1(bin("+")))
		case token.SUB:
			return res(ii.wrap1(bin("-")))
		case token.MUL:
			return res(ii.wrapm(bin("*")))
		case token.QUO, token.REM:
			// division by zero is its own (panicking) path
			if _, _, conc := concIntLit(y); !conc {
				if ex.decide(mkBool(ex, "(= "+b.e+" 0)")) {
					panic(fmt.Errorf("runtime error: integer divide by zero"))
				}
			} else if b.e == "0" {
				panic(fmt.Errorf("runtime error: integer divide by zero"))
			}
			if op == token.QUO {
				return res(ii.wrapm(bin("tdiv")))
			}
			return res(bin("trem"))
		case token.LSS, token.LEQ, token.GTR, token.GEQ, token.EQL, token.NEQ:
			if t := bvCompare(op, a, b, x, y); t != "" {
				return mkBool(ex, t)
			}
		}
		switch op {
		case token.LSS:
			return mkBool(ex, bin("<"))
		case token.LEQ:
			return mkBool(ex, bin("<="))
		case token.GTR:
			return mkBool(ex, bin(">"))
		case token.GEQ:
			return mkBool(ex, bin(">="))
		case token.EQL:
			return mkBool(ex, bin("="))
		case token.NEQ:
			return mkBool(ex, "(not "+bin("=")+")")
		case token.OR, token.XOR, token.AND, token.AND_NOT:
			if op == token.AND {
				break // masks first (below); the general case falls through to the bit-wise form
			}
			if t := bitwise(op, a.e, b.e, ii); t != "" {
				return res(t)
			}
		}
		switch op {
		case token.AND:
			// x & (2^k-1) = x mod 2^k (the mathematical, non-negative remainder) for every
			// two's-complement x, signed or not, as long as the mask fits the positive range
			for _, side := range []struct {
				c  value
				se string
			}{{y, a.e}, {x, b.e}} {
				if _, lit, conc := concIntLit(side.c); conc {
					if m, ok := new(big.Int).SetString(lit, 10); ok {
						m1 := new(big.Int).Add(m, big.NewInt(1))
						if m.Sign() >= 0 && new(big.Int).And(m1, m).Sign() == 0 {
							return res("(mod " + side.se + " " + m1.String() + ")")
						}
					}
				}
			}
			if t := bitwise(op, a.e, b.e, ii); t != "" {
				return res(t)
			}
		}
	case kF64:
		if a.g != nil || b.g != nil {
			if a.g == nil || b.g == nil {
				unsupported("mixing grid and ieee floats")
			}
			return gridBinop(ex, op, a, b)
		}
		g := func(o string) value {
			return ex.name(symv{ex: ex, k: kF64, bk: types.Float64, e: "(" + o + " RNE " + a.e + " " + b.e + ")"})
		}
		switch op {
		case token.ADD:
			return g("fp.add")
		case token.SUB:
			return g("fp.sub")
		case token.MUL:
			return g("fp.mul")
		case token.QUO:
			return g("fp.div")
		case token.LSS:
			return mkBool(ex, bin("fp.lt"))
		case token.LEQ:
			return mkBool(ex, bin("fp.leq"))
		case token.GTR:
			return mkBool(ex, bin("fp.gt"))
		case token.GEQ:
			return mkBool(ex, bin("fp.geq"))
		case token.EQL:
			return mkBool(ex, bin("fp.eq"))
		case token.NEQ:
			return mkBool(ex, "(not "+bin("fp.eq")+")")
		}
	case kBool:
		switch op {
		case token.EQL:
			return mkBool(ex, bin("="))
		case token.NEQ:
			return mkBool(ex, "(not "+bin("=")+")")
		case token.AND, token.LAND:
			return mkBool(ex, bin("and"))
		case token.OR, token.LOR:
			return mkBool(ex, bin("or"))
		}
	}
	unsupported("symBinop: operator %v on kind %d", op, a.k)
	return nil
}

func symShift(ex *Explorer, op token.Token, x, y value) value {
	_, lit, conc := concIntLit(y)
	if !conc {
		// symbolic shift count: case split
		sy := y.(symv)
		y = ex.concretize(sy)
		if isSym(x) {
			return symShift(ex, op, x, y)
		}
		return binop(op, nil, x, y)
	}
	k, _ := new(big.Int).SetString(lit, 10)
	a := x.(symv)
	ii := infoOf(a.bk)
	if k.Sign() < 0 {
		panic(fmt.Errorf("runtime error: negative shift amount"))
	}
	if k.Cmp(big.NewInt(int64(ii.bits))) >= 0 {
		if op == token.SHL || !ii.signed {
			return goInt(a.bk, big.NewInt(0))
		}
		return ex.name(symv{ex: ex, k: kInt, bk: a.bk, e: "(ite (< " + a.e + " 0) (- 1) 0)"})
	}
	p := new2pow(int(k.Int64()))
	if op == token.SHL {
		return ex.name(symv{ex: ex, k: kInt, bk: a.bk, e: ii.wrapm("(* " + a.e + " " + p + ")")})
	}
	return ex.name(symv{ex: ex, k: kInt, bk: a.bk, e: "(div " + a.e + " " + p + ")"})
}

func bvToInt(bv string) string {
	return "(let ((u (bv2nat " + bv + "))) (ite (>= u 9223372036854775808) (- u 18446744073709551616) u))"
}

func bvLit(x *big.Int) string {
	m := new(big.Int).Set(x)
	if m.Sign() < 0 {
		m.Add(m, new(big.Int).Lsh(big.NewInt(1), 64))
	}
	return "(_ bv" + m.String() + " 64)"
}

func symUnop(op token.Token, x symv) value {
	ex := x.ex
	if x.bad != "" {
		return x
	}
	switch {
	case op == token.NOT && x.k == kBool:
		if strings.HasPrefix(x.e, "(not ") {
			return mkBool(ex, x.e[5:len(x.e)-1])
		}
		return mkBool(ex, "(not "+x.e+")")
	case op == token.SUB && x.k == kInt:
		return ex.name(symv{ex: ex, k: kInt, bk: x.bk, e: infoOf(x.bk).wrap1("(- " + x.e + ")")})
	case op == token.SUB && x.k == kF64:
		if x.g != nil {
			return symv{ex: ex, k: kF64, bk: x.bk, e: x.e, g: &grid{coef: new(big.Int).Neg(x.g.coef), scale: x.g.scale, den: x.g.den}}
		}
		return symv{ex: ex, k: kF64, bk: x.bk, e: "(fp.neg " + x.e + ")"}
	}
	unsupported("symUnop: %v on kind %d", op, x.k)
	return nil
}

func symConv(tdst types.Type, x symv) value {
	ex := x.ex
	if x.bad != "" {
		unsupported("conversion of an inexact grid float (%s)", x.bad)
	}
	b, ok := tdst.Underlying().(*types.Basic)
	if !ok {
		unsupported("symConv: non-basic destination %v", tdst)
	}
	switch {
	case b.Info()&types.IsInteger != 0 && x.k == kInt:
		src, dst := infoOf(x.bk), infoOf(b.Kind())
		slo, shi := src.rng()
		dlo, dhi := dst.rng()
		if slo.Cmp(dlo) >= 0 && shi.Cmp(dhi) <= 0 {
			return symv{ex: ex, k: kInt, bk: b.Kind(), e: x.e}
		}
		return ex.name(symv{ex: ex, k: kInt, bk: b.Kind(), e: dst.wrapm(x.e)})
	case b.Info()&types.IsFloat != 0 && x.k == kInt:
		if b.Kind() != types.Float64 && b.Kind() != types.UntypedFloat {
			unsupported("symConv: float32")
		}
		if ex.S.FloatMode == "grid" {
			ex.gridOblig(x.e)
			return symv{ex: ex, k: kF64, bk: types.Float64, e: x.e, g: &grid{coef: big.NewInt(1), scale: 0}}
		}
		if !infoOf(x.bk).signed {
			unsupported("symConv: unsigned->float in ieee mode")
		}
		if x.bv != "" {
			return ex.name(symv{ex: ex, k: kF64, bk: types.Float64, e: "((_ to_fp 11 53) RNE " + x.bv + ")"})
		}
		// Int -> signed bit-vector -> float (RNE), exact IEEE semantics
		return ex.name(symv{ex: ex, k: kF64, bk: types.Float64, e: "((_ to_fp 11 53) RNE ((_ int2bv 64) " + x.e + "))"})
	case b.Info()&types.IsInteger != 0 && x.k == kF64:
		dst := infoOf(b.Kind())
		if x.g != nil {
			if x.g.den != nil {
				unsupported("conversion of an inexact quotient to an integer")
			}
			return ex.name(symv{ex: ex, k: kInt, bk: b.Kind(), e: dst.wrapm(gridTrunc(x))})
		}
		if !dst.signed || dst.bits != 64 {
			unsupported("symConv: float->%v in ieee mode", b)
		}
		bv := "((_ fp.to_sbv 64) RTZ " + x.e + ")"
		// signed value of the bit-vector
		r := symv{ex: ex, k: kInt, bk: b.Kind(), e: bvToInt(bv), bv: bv}
		// An integer derived from an IEEE float is case-split at once: every
		// later branch on it would otherwise need a floating-point query.
		return ex.concretize(r)
	case b.Info()&types.IsFloat != 0 && x.k == kF64:
		if b.Kind() != types.Float64 && b.Kind() != types.UntypedFloat {
			unsupported("symConv: float32")
		}
		return x
	case b.Info()&types.IsBoolean != 0 && x.k == kBool:
		return x
	}
	unsupported("symConv: %v from kind %d", tdst, x.k)
	return nil
}

// ---------- grid floats ----------

// decompose f = mant * 2^exp with mant odd (or 0).
func dyadic(f float64) (*big.Int, int) {
	if f == 0 {
		return big.NewInt(0), 0
	}
	if math.IsInf(f, 0) || math.IsNaN(f) {
		unsupported("grid: non-finite constant")
	}
	fr, e := math.Frexp(f) // f = fr * 2^e, 0.5 <= |fr| < 1
	m := int64(fr * (1 << 53))
	e -= 53
	for m%2 == 0 {
		m /= 2
		e++
	}
	return big.NewInt(m), e
}

func gridConst(ex *Explorer, f float64) symv {
	m, e := dyadic(f)
	return symv{ex: ex, k: kF64, bk: types.Float64, e: "1", g: &grid{coef: m, scale: -e}}
}

// folded returns the Int term coef*T*2^up
func gridTerm(x symv, up int) string {
	c := new(big.Int).Set(x.g.coef)
	if up > 0 {
		c.Lsh(c, uint(up))
	}
	if c.Sign() == 0 {
		return "0"
	}
	if x.e == "1" {
		return blit(c)
	}
	if c.Cmp(big.NewInt(1)) == 0 {
		return x.e
	}
	return "(* " + blit(c) + " " + x.e + ")"
}

func gridBinop(ex *Explorer, op token.Token, a, b symv) value {
	if a.g.den != nil || b.g.den != nil {
		switch op {
		case token.ADD, token.SUB, token.MUL, token.QUO:
			return symv{ex: ex, k: kF64, bk: types.Float64, e: "0", g: &grid{coef: big.NewInt(1)}, bad: "arithmetic on an inexact quotient"}
		}
		// compare a.num/a.den with b.num/b.den  <=>  a.num*b.den ? b.num*a.den
		one := big.NewInt(1)
		da, db := a.g.den, b.g.den
		if da == nil {
			da = one
		}
		if db == nil {
			db = one
		}
		a2 := symv{ex: ex, k: kF64, bk: a.bk, e: a.e, g: &grid{coef: new(big.Int).Mul(a.g.coef, db), scale: a.g.scale}}
		b2 := symv{ex: ex, k: kF64, bk: b.bk, e: b.e, g: &grid{coef: new(big.Int).Mul(b.g.coef, da), scale: b.g.scale}}
		return gridBinop(ex, op, a2, b2)
	}
	switch op {
	case token.MUL:
		g := &grid{coef: new(big.Int).Mul(a.g.coef, b.g.coef), scale: a.g.scale + b.g.scale}
		var t string
		switch {
		case a.e == "1":
			t = b.e
		case b.e == "1":
			t = a.e
		default:
			t = "(* " + a.e + " " + b.e + ")"
		}
		r := symv{ex: ex, k: kF64, bk: types.Float64, e: t, g: g}
		ex.gridOblig(gridTerm(r, 0))
		return ex.name(r)
	case token.QUO:
		// exact only when the divisor is a concrete constant whose odd part
		// divides the concrete coefficient (e.g. (m*2.5e8)/1e9).
		if b.e != "1" {
			return symv{ex: ex, k: kF64, bk: types.Float64, e: "0", g: &grid{coef: big.NewInt(1)}, bad: "quotient by a symbolic value"}
		}
		if b.g.coef.Sign() == 0 {
			unsupported("grid: division by zero")
		}
		q, r := new(big.Int).QuoRem(a.g.coef, b.g.coef, new(big.Int))
		if r.Sign() != 0 {
			den := new(big.Int).Set(b.g.coef)
			num := new(big.Int).Set(a.g.coef)
			if den.Sign() < 0 {
				den.Neg(den)
				num.Neg(num)
			}
			return symv{ex: ex, k: kF64, bk: types.Float64, e: a.e, g: &grid{coef: num, scale: a.g.scale - b.g.scale, den: den}}
		}
		return symv{ex: ex, k: kF64, bk: types.Float64, e: a.e, g: &grid{coef: q, scale: a.g.scale - b.g.scale}}
	}
	s := a.g.scale
	if b.g.scale > s {
		s = b.g.scale
	}
	ta, tb := gridTerm(a, s-a.g.scale), gridTerm(b, s-b.g.scale)
	switch op {
	case token.ADD, token.SUB:
		o := "+"
		if op == token.SUB {
			o = "-"
		}
		t := "(" + o + " " + ta + " " + tb + ")"
		ex.gridOblig(ta)
		ex.gridOblig(tb)
		ex.gridOblig(t)
		return ex.name(symv{ex: ex, k: kF64, bk: types.Float64, e: t, g: &grid{coef: big.NewInt(1), scale: s}})
	case token.LSS:
		return mkBool(ex, "(< "+ta+" "+tb+")")
	case token.LEQ:
		return mkBool(ex, "(<= "+ta+" "+tb+")")
	case token.GTR:
		return mkBool(ex, "(> "+ta+" "+tb+")")
	case token.GEQ:
		return mkBool(ex, "(>= "+ta+" "+tb+")")
	case token.EQL:
		return mkBool(ex, "(= "+ta+" "+tb+")")
	case token.NEQ:
		return mkBool(ex, "(not (= "+ta+" "+tb+"))")
	}
	unsupported("grid: operator %v", op)
	return nil
}

// gridTrunc: Int term of trunc(x) (Go float->int conversion).
func gridTrunc(x symv) string {
	if x.g.scale <= 0 {
		return gridTerm(x, -x.g.scale)
	}
	return "(tdiv " + gridTerm(x, 0) + " " + new2pow(x.g.scale) + ")"
}

// gridRound implements math.Round / math.Floor / math.Ceil / math.Trunc on a grid value.
func gridRound(x symv, mode string) symv {
	ex := x.ex
	if x.g.scale <= 0 {
		return x
	}
	n := gridTerm(x, 0)
	p := new2pow(x.g.scale)
	half := new2pow(x.g.scale - 1)
	var t string
	switch mode {
	case "floor":
		t = "(div " + n + " " + p + ")"
	case "ceil":
		t = "(- (div (- " + n + ") " + p + "))"
	case "trunc":
		t = "(tdiv " + n + " " + p + ")"
	case "round": // half away from zero
		t = "(ite (>= " + n + " 0) (div (+ " + n + " " + half + ") " + p + ") (- (div (+ (- " + n + ") " + half + ") " + p + ")))"
	}
	return ex.name(symv{ex: ex, k: kF64, bk: types.Float64, e: t, g: &grid{coef: big.NewInt(1), scale: 0}})
}

// bvCompare: comparison in the bit-vector theory when one side carries a BV
// term and the other is a concrete integer (or also carries one).
func bvCompare(op token.Token, a, b symv, x, y value) string {
	side := func(s symv, v value) string {
		if s.bv != "" {
			return s.bv
		}
		if _, lit, ok := concIntLit(v); ok {
			k, ok2 := new(big.Int).SetString(strings.Trim(strings.ReplaceAll(strings.ReplaceAll(lit, "(- ", "-"), ")", ""), " "), 10)
			if ok2 {
				return bvLit(k)
			}
		}
		return ""
	}
	if a.bv == "" && b.bv == "" {
		return ""
	}
	l, r := side(a, x), side(b, y)
	if l == "" || r == "" {
		return ""
	}
	switch op {
	case token.LSS:
		return "(bvslt " + l + " " + r + ")"
	case token.LEQ:
		return "(bvsle " + l + " " + r + ")"
	case token.GTR:
		return "(bvsgt " + l + " " + r + ")"
	case token.GEQ:
		return "(bvsge " + l + " " + r + ")"
	case token.EQL:
		return "(= " + l + " " + r + ")"
	case token.NEQ:
		return "(not (= " + l + " " + r + "))"
	}
	return ""
}
