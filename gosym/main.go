// gosym — bounded symbolic execution of projecteru2/core's Go SSA with SMT
// queries; see /verif/DESIGN.md.
package main

import (
	"bufio"
	"bytes"
	"crypto/sha256"
	"encoding/hex"
	"encoding/json"
	"flag"
	"fmt"
	"go/ast"
	"go/token"
	"go/types"
	"os"
	"os/exec"
	"path/filepath"
	"runtime"
	"sort"
	"strconv"
	"strings"
	"time"

	"golang.org/x/tools/go/packages"
	"golang.org/x/tools/go/ssa"
	"golang.org/x/tools/go/ssa/ssautil"

	"gosym/interp"
)

var (
	verifDir = envOr("VERIF_DIR", "/verif")
	repoDir  = envOr("VERIF_REPO", "/repo")
)

func envOr(k, d string) string {
	if v := os.Getenv(k); v != "" {
		return v
	}
	return d
}

// ---- configuration (checks.json) ----

type RunCfg struct {
	Dir          string   `json:"dir"`   // package directory relative to the repo root
	Float        string   `json:"float"` // "grid" (default) | "ieee"
	Solver       string   `json:"solver"`
	Quick        []string `json:"quick"`
	Thorough     []string `json:"thorough"`
	InlineGo     bool     `json:"inline_go"`
	LazyGo       bool     `json:"lazy_go"`
	SchedChoices int      `json:"sched_choices"`
	StepBudget   int64    `json:"step_budget"`
	TimeoutS     int      `json:"timeout_s"`
	InitPkgs     []string `json:"init_pkgs"` // extra core packages whose init runs
	Samples      int      `json:"samples"`
	// functions whose map ranges (2-3 keys) are explored in every order
	PermuteRanges []string `json:"permute_ranges"`
}

type CheckCfg struct {
	Title       string   `json:"title"`
	DesignRef   string   `json:"design_ref"`
	Runs        []RunCfg `json:"runs"`
	Bounds      string   `json:"bounds"`
	Outside     string   `json:"outside"`
	Assumptions []string `json:"assumptions"`
	Covers      []string `json:"required_covers"`
}

type KnownFile struct {
	Findings []interp.Known `json:"findings"`
	Fixed    []string       `json:"fixed"`
}

func must(err error) {
	if err != nil {
		fmt.Fprintln(os.Stderr, "gosym:", err)
		os.Exit(2)
	}
}

func goEnv() []string {
	return append(os.Environ(), "GOFLAGS=-mod=mod", "GOPROXY=off", "GOSUMDB=off", "GOTOOLCHAIN=local", "CGO_ENABLED=0")
}

// ---- loading ----

type loaded struct {
	prog    *ssa.Program
	pkg     *ssa.Package
	model   *ssa.Package
	ppkg    *packages.Package
	stubs   *interp.StubTable
	files   map[string]string // overlay path -> real path (for native replay)
	reload  map[token.Pos][]int
	pkgName string
	digest  string
	loadS   float64
}

func harnessDir(dir string) string {
	return filepath.Join(verifDir, "harness", strings.ReplaceAll(dir, "/", "_"))
}

func pkgNameOf(dir string) string {
	// read the package clause of any non-test file
	ents, _ := os.ReadDir(filepath.Join(repoDir, dir))
	for _, e := range ents {
		if strings.HasSuffix(e.Name(), ".go") && !strings.HasSuffix(e.Name(), "_test.go") {
			b, _ := os.ReadFile(filepath.Join(repoDir, dir, e.Name()))
			for _, l := range strings.Split(string(b), "\n") {
				l = strings.TrimSpace(l)
				if strings.HasPrefix(l, "package ") {
					return strings.Fields(l)[1]
				}
			}
		}
	}
	return filepath.Base(dir)
}

func load(dir string, workDir string) *loaded {
	t0 := time.Now()
	ld := &loaded{files: map[string]string{}}
	ld.pkgName = pkgNameOf(dir)
	ov := map[string][]byte{}
	// support file
	tmpl, err := os.ReadFile(filepath.Join(verifDir, "harness", "support.go.tmpl"))
	must(err)
	sup := bytes.ReplaceAll(tmpl, []byte("PKGNAME"), []byte(ld.pkgName))
	supReal := filepath.Join(workDir, "support_"+strings.ReplaceAll(dir, "/", "_")+".go")
	must(os.WriteFile(supReal, sup, 0o644))
	supVirt := filepath.Join(repoDir, dir, "zz_verif_support.go")
	ov[supVirt] = sup
	ld.files[supVirt] = supReal
	// harness files
	hd := harnessDir(dir)
	ents, err := os.ReadDir(hd)
	must(err)
	for _, e := range ents {
		if !strings.HasSuffix(e.Name(), ".go") {
			continue
		}
		b, err := os.ReadFile(filepath.Join(hd, e.Name()))
		must(err)
		virt := filepath.Join(repoDir, dir, "zz_verif_"+e.Name())
		ld.files[virt] = filepath.Join(hd, e.Name())
		if strings.HasSuffix(e.Name(), "_test.go") {
			continue // native replay only
		}
		ov[virt] = b
	}
	// model package
	sd := filepath.Join(verifDir, "harness", "zzverif")
	sents, _ := os.ReadDir(sd)
	for _, e := range sents {
		if strings.HasSuffix(e.Name(), ".go") {
			b, _ := os.ReadFile(filepath.Join(sd, e.Name()))
			ov[filepath.Join(repoDir, "zzverif", e.Name())] = b
		}
	}
	cfg := &packages.Config{Mode: packages.LoadAllSyntax | packages.NeedModule, Dir: repoDir, Overlay: ov, Env: goEnv()}
	pkgs, err := packages.Load(cfg, "./"+dir, "./zzverif")
	must(err)
	var errs []string
	packages.Visit(pkgs, nil, func(p *packages.Package) {
		for _, e := range p.Errors {
			errs = append(errs, e.Error())
		}
	})
	if len(errs) > 0 {
		fmt.Fprintln(os.Stderr, "INCONCLUSIVE: harness or tree does not type-check:")
		for _, e := range errs {
			fmt.Fprintln(os.Stderr, "  ", e)
		}
		os.Exit(2)
	}
	prog, ssapkgs := ssautil.AllPackages(pkgs, ssa.InstantiateGenerics)
	prog.Build()
	ld.prog = prog
	for k, p := range pkgs {
		if strings.HasSuffix(p.PkgPath, "/zzverif") {
			ld.model = ssapkgs[k]
		} else {
			ld.pkg = ssapkgs[k]
			ld.ppkg = p
		}
	}
	if os.Getenv("VERIF_DEBUG") != "" && ld.ppkg != nil {
		fmt.Fprintf(os.Stderr, "module=%v\n", ld.ppkg.Module)
		for f, v := range ld.ppkg.TypesInfo.FileVersions {
			fmt.Fprintf(os.Stderr, "fileversion %s = %q\n", f.Name.Name, v)
			break
		}
	}
	// stub table
	st := interp.NewStubTable()
	st.InstallModelPkg(ld.model)
	addDirectives := func(p *packages.Package, sp *ssa.Package) {
		for _, f := range p.Syntax {
			for _, d := range f.Decls {
				fd, ok := d.(*ast.FuncDecl)
				if !ok || fd.Doc == nil || fd.Recv != nil {
					continue
				}
				for _, c := range fd.Doc.List {
					if strings.HasPrefix(c.Text, "//verif:stub ") {
						target := strings.TrimSpace(strings.TrimPrefix(c.Text, "//verif:stub "))
						if fn := sp.Func(fd.Name.Name); fn != nil {
							st.Redirect[target] = fn
						}
					}
					if strings.HasPrefix(c.Text, "//verif:zero ") {
						st.ZeroFns[strings.TrimSpace(strings.TrimPrefix(c.Text, "//verif:zero "))] = true
					}
				}
			}
			for _, cg := range f.Comments {
				for _, c := range cg.List {
					if strings.HasPrefix(c.Text, "//verif:zeropkg ") {
						st.ZeroPkgs[strings.TrimSpace(strings.TrimPrefix(c.Text, "//verif:zeropkg "))] = true
					}
					if strings.HasPrefix(c.Text, "//verif:zerofn ") {
						st.ZeroFns[strings.TrimSpace(strings.TrimPrefix(c.Text, "//verif:zerofn "))] = true
					}
				}
			}
		}
	}
	for k, p := range pkgs {
		addDirectives(p, ssapkgs[k])
	}
	ld.stubs = st
	// gc evaluates the calls of a `return v, f()` statement before it reads the
	// plain variables; go/ssa loads v first.  Record such statements (in core
	// packages) so that the interpreter re-reads v at the return, as gc does.
	ld.reload = map[token.Pos][]int{}
	packages.Visit(pkgs, nil, func(p *packages.Package) {
		if !strings.HasPrefix(p.PkgPath, "github.com/projecteru2/core") {
			return
		}
		for _, f := range p.Syntax {
			ast.Inspect(f, func(n ast.Node) bool {
				rs, ok := n.(*ast.ReturnStmt)
				if !ok || len(rs.Results) < 2 {
					return true
				}
				hasCall := false
				for _, r := range rs.Results {
					ast.Inspect(r, func(m ast.Node) bool {
						if _, isCall := m.(*ast.CallExpr); isCall {
							hasCall = true
						}
						return true
					})
				}
				if !hasCall {
					return true
				}
				for k, r := range rs.Results {
					if _, isIdent := r.(*ast.Ident); isIdent {
						ld.reload[rs.Pos()] = append(ld.reload[rs.Pos()], k)
					}
				}
				return true
			})
		}
	})
	// digest of the package sources actually loaded from the working tree
	h := sha256.New()
	var srcs []string
	for _, f := range ld.ppkg.GoFiles {
		if !strings.Contains(filepath.Base(f), "zz_verif_") {
			srcs = append(srcs, f)
		}
	}
	sort.Strings(srcs)
	for _, f := range srcs {
		b, _ := os.ReadFile(f)
		h.Write(b)
	}
	ld.digest = hex.EncodeToString(h.Sum(nil))[:16]
	ld.loadS = time.Since(t0).Seconds()
	return ld
}

// ---- native replay ----

type replayCase struct {
	Harness string            `json:"harness"`
	Model   map[string]string `json:"model"`
	Expect  string            `json:"expect,omitempty"`
}

func expectOf(v interp.Violation) string {
	switch v.Kind {
	case "panic":
		return "panic"
	case "hang":
		return "hang"
	}
	return v.Label
}

type replayResult struct {
	Index     int               `json:"index"`
	Failed    []string          `json:"failed"`
	Panic     string            `json:"panic"`
	Stack     string            `json:"stack"`
	Hang      bool              `json:"hang"`
	AssumeBad string            `json:"assume_bad"`
	Observed  map[string]string `json:"observed"`
	Missing   []string          `json:"missing"`
}

// nativeReplay runs the cases against the real build; results are indexed like cases.
func nativeReplay(dir string, ld *loaded, cases []replayCase, workDir string) ([]*replayResult, string, error) {
	res := make([]*replayResult, len(cases))
	if len(cases) == 0 {
		return res, "", nil
	}
	tmpl, err := os.ReadFile(filepath.Join(verifDir, "harness", "replay_test.go.tmpl"))
	if err != nil {
		return nil, "", err
	}
	rt := filepath.Join(workDir, "replay_"+strings.ReplaceAll(dir, "/", "_")+"_test.go")
	os.WriteFile(rt, bytes.ReplaceAll(tmpl, []byte("PKGNAME"), []byte(ld.pkgName)), 0o644)
	repl := map[string]string{filepath.Join(repoDir, dir, "zz_verif_replay_test.go"): rt}
	for v, r := range ld.files {
		repl[v] = r
	}
	ovb, _ := json.Marshal(map[string]interface{}{"Replace": repl})
	ovf := filepath.Join(workDir, "overlay_"+strings.ReplaceAll(dir, "/", "_")+".json")
	os.WriteFile(ovf, ovb, 0o644)
	var log strings.Builder
	// a hang ends the test process, so remaining cases are replayed in a new one
	start := 0
	for start < len(cases) {
		cf := filepath.Join(workDir, fmt.Sprintf("cases_%s_%d.json", strings.ReplaceAll(dir, "/", "_"), start))
		cb, _ := json.Marshal(cases[start:])
		os.WriteFile(cf, cb, 0o644)
		cmd := exec.Command("go", "test", "-v", "-vet=off", "-count=1", "-timeout", "600s", "-overlay", ovf, "-run", "^TestVerifReplay$", "./"+dir)
		cmd.Dir = repoDir
		cmd.Env = append(goEnv(), "VERIF_REPLAY_FILE="+cf, "GOMEMLIMIT=3GiB")
		out, _ := cmd.CombinedOutput()
		log.Write(out)
		got := 0
		sc := bufio.NewScanner(bytes.NewReader(out))
		sc.Buffer(make([]byte, 1<<20), 1<<26)
		for sc.Scan() {
			l := sc.Text()
			if i := strings.Index(l, "VERIF-RESULT "); i >= 0 {
				var r replayResult
				if json.Unmarshal([]byte(l[i+len("VERIF-RESULT "):]), &r) == nil {
					r.Index += start
					if r.Index < len(res) {
						rr := r
						res[r.Index] = &rr
						got++
					}
				}
			}
		}
		if got == 0 {
			return res, log.String(), fmt.Errorf("native replay produced no result (build failure?)")
		}
		start += got
	}
	return res, log.String(), nil
}

// ---- evidence ----

type harnessReport struct {
	Harness      string          `json:"harness"`
	Package      string          `json:"package"`
	Paths        int             `json:"paths"`
	Decisions    int64           `json:"branch_decisions"`
	MaxDecisions int             `json:"max_decisions_on_a_path"`
	Queries      int64           `json:"solver_queries"`
	Discharged   int64           `json:"assertion_queries_unsat"`
	SolverS      float64         `json:"solver_s"`
	SlowestMs    int64           `json:"slowest_query_ms"`
	WallS        float64         `json:"wall_s"`
	Outcomes     map[string]int  `json:"path_outcomes"`
	Asserts      map[string]int  `json:"assertions_discharged_by_label"`
	Covers       map[string]bool `json:"cover_witnesses"`
	Unknown      int             `json:"solver_unknown_answers"`
}

func main() {
	if len(os.Args) < 2 {
		fmt.Fprintln(os.Stderr, "usage: gosym check <ID> [--tier quick|thorough] | gosym replay <ID> <file> | gosym run ...")
		os.Exit(2)
	}
	switch os.Args[1] {
	case "check":
		os.Exit(cmdCheck(os.Args[2:]))
	case "replay":
		os.Exit(cmdReplay(os.Args[2:]))
	case "run":
		os.Exit(cmdRun(os.Args[2:]))
	}
	fmt.Fprintln(os.Stderr, "unknown command")
	os.Exit(2)
}

func readCfg() (map[string]*CheckCfg, *KnownFile) {
	cfgs := map[string]*CheckCfg{}
	b, err := os.ReadFile(filepath.Join(verifDir, "checks.json"))
	must(err)
	must(json.Unmarshal(b, &cfgs))
	kf := &KnownFile{}
	if b, err := os.ReadFile(filepath.Join(verifDir, "known_findings.json")); err == nil {
		must(json.Unmarshal(b, kf))
	}
	return cfgs, kf
}

func newSession(ld *loaded, rc RunCfg, harness, prop string, known []interp.Known) *interp.Session {
	fname, arg, hasArg := strings.Cut(harness, "@")
	fn := ld.pkg.Func(fname)
	if fn == nil {
		fmt.Fprintf(os.Stderr, "INCONCLUSIVE: harness %s not found in %s\n", harness, ld.pkg.Pkg.Path())
		os.Exit(2)
	}
	fm := rc.Float
	if fm == "" {
		fm = "grid"
	}
	s := &interp.Session{
		Prog: ld.prog, Fn: fn, Harness: harness, Sizes: types.SizesFor("gc", "amd64"),
		PropPrefix: prop, FloatMode: fm, SolverKind: rc.Solver, TimeoutS: rc.TimeoutS, StepBudget: rc.StepBudget,
		Known: known, Stubs: ld.stubs, InlineGo: rc.InlineGo, LazyGo: rc.LazyGo, SchedChoices: rc.SchedChoices,
		IntrinsicPkgs: map[string]bool{ld.pkg.Pkg.Path(): true},
		WantSample:    rc.Samples,
		ExtraInits:    []*ssa.Function{ld.model.Func("init")},
		ModelPkg:      ld.model,
		ReloadReturn:  ld.reload,
	}
	if hasArg {
		s.Arg = &arg
		// scheduling options travel in the harness argument: sched=lazy, choices=<n>
		for _, kv := range strings.Split(arg, ",") {
			k, v, _ := strings.Cut(kv, "=")
			switch k {
			case "sched":
				s.LazyGo = v == "lazy"
				s.InlineGo = v == "eager" || s.InlineGo
			case "choices":
				s.SchedChoices, _ = strconv.Atoi(v)
			case "preempt":
				s.Preemptions, _ = strconv.Atoi(v)
				s.InlineGo = s.InlineGo || !s.LazyGo
			}
		}
	}
	if cc := os.Getenv("VERIF_CROSSCHECK"); cc != "" {
		s.CrossCheck, _ = strconv.Atoi(cc)
	}
	if len(rc.PermuteRanges) > 0 {
		s.PermuteRanges = map[string]bool{}
		for _, f := range rc.PermuteRanges {
			s.PermuteRanges[f] = true
		}
	}
	if mp := os.Getenv("VERIF_MAXPATHS"); mp != "" {
		s.MaxPaths, _ = strconv.Atoi(mp)
	}
	s.QueryLog = os.Getenv("VERIF_QUERYLOG")
	s.Trace = os.Getenv("VERIF_TRACE") != ""
	return s
}

func setInitAllow(ld *loaded, rc RunCfg) {
	allow := map[string]bool{ld.pkg.Pkg.Path(): true, ld.model.Pkg.Path(): true}
	for _, p := range rc.InitPkgs {
		allow["github.com/projecteru2/core/"+p] = true
	}
	interp.InitAllow = func(p string) bool {
		if allow[p] {
			return true
		}
		// core packages that only declare values (errors, constants, tables)
		switch p {
		case "github.com/projecteru2/core/types", "github.com/projecteru2/core/strategy",
			"github.com/projecteru2/core/resource/plugins/cpumem/types",
			"github.com/projecteru2/core/resource/types", "github.com/projecteru2/core/resource/plugins/types",
			"github.com/projecteru2/core/wal",
			"github.com/projecteru2/core/resource/cobalt", "github.com/projecteru2/core/resource/plugins",
			"github.com/projecteru2/core/resource/plugins/cpumem", "github.com/projecteru2/core/resource/plugins/cpumem/schedule",
			"github.com/projecteru2/core/engine/types", "github.com/projecteru2/core/store",
			"github.com/projecteru2/core/resource", "context", "io", "strings", "bytes":
			return true
		}
		return false
	}
}

func workers() int {
	if w := os.Getenv("VERIF_WORKERS"); w != "" {
		n, _ := strconv.Atoi(w)
		if n > 0 {
			return n
		}
	}
	n := runtime.NumCPU()
	if n > 16 {
		n = 16
	}
	return n
}

func cmdRun(args []string) int {
	fs := flag.NewFlagSet("run", flag.ExitOnError)
	dir := fs.String("dir", "strategy", "package dir")
	float := fs.String("float", "grid", "float mode")
	solver := fs.String("solver", "z3", "solver")
	prop := fs.String("prop", "", "property prefix filter")
	inl := fs.Bool("inline-go", false, "run go statements inline")
	lazy := fs.Bool("lazy-go", false, "queue go statements; run them when the spawner blocks")
	schedN := fs.Int("sched-choices", 0, "number of symbolic scheduling choices")
	samples := fs.Int("samples", 0, "samples")
	permute := fs.String("permute", "", "comma-separated ssa function names whose map ranges are permuted")
	fs.Parse(args)
	work := filepath.Join(verifDir, ".work", strconv.Itoa(os.Getpid()))
	os.MkdirAll(work, 0o755)
	defer os.RemoveAll(work)
	_, kf := readCfg()
	ld := load(*dir, work)
	fmt.Printf("loaded %s in %.1fs\n", *dir, ld.loadS)
	rc := RunCfg{Dir: *dir, Float: *float, Solver: *solver, InlineGo: *inl, LazyGo: *lazy, SchedChoices: *schedN, Samples: *samples}
	if *permute != "" {
		rc.PermuteRanges = strings.Split(*permute, ",")
	}
	setInitAllow(ld, rc)
	for _, h := range fs.Args() {
		s := newSession(ld, rc, h, *prop, kf.Findings)
		t0 := time.Now()
		s.Explore(workers())
		fmt.Printf("%s: paths=%d maxdec=%d queries=%d solver=%.1fs wall=%.1fs discharged=%d unknown=%d\n", h, s.Paths, s.MaxDecisions, s.Queries, s.SolverTime.Seconds(), time.Since(t0).Seconds(), s.Discharged, s.Unknowns)
		var oc []string
		for k, v := range s.Outcomes {
			oc = append(oc, fmt.Sprintf("%s ×%d", k, v))
		}
		sort.Strings(oc)
		for _, o := range oc {
			fmt.Println("   outcome:", o)
		}
		for k := range s.CoverDecl {
			fmt.Printf("   cover %s: %v\n", k, s.Covers[k])
		}
		for _, v := range s.Viol {
			fmt.Printf("   VIOL %s [%s] %s model=%v\n", v.Label, v.Kind, v.Detail, v.Model)
		}
		for id, v := range s.KnownHits {
			fmt.Printf("   KNOWN %s via %s model=%v\n", id, v.Label, v.Model)
		}
		for k, m := range s.Inconclusive {
			if k >= 3 {
				fmt.Printf("   ... %d more inconclusive paths\n", len(s.Inconclusive)-3)
				break
			}
			fmt.Println("   INCONCLUSIVE:", m)
		}
		if os.Getenv("VERIF_REPLAY") != "" {
			var cases []replayCase
			for _, v := range s.Viol {
				cases = append(cases, replayCase{h, v.Model, expectOf(v)})
			}
			for _, sm := range s.Samples {
				cases = append(cases, replayCase{h, sm.Model, ""})
			}
			res, log, err := nativeReplay(*dir, ld, cases, work)
			if err != nil {
				fmt.Println("replay error:", err)
				fmt.Println(log)
			}
			for k, r := range res {
				b, _ := json.Marshal(r)
				fmt.Printf("   replay[%d] %s\n", k, b)
			}
			for k, sm := range s.Samples {
				fmt.Printf("   sample[%d] observed=%v\n", k, sm.Observed)
			}
		}
	}
	return 0
}

type violationFile struct {
	Property string            `json:"property"`
	Dir      string            `json:"dir"`
	Harness  string            `json:"harness"`
	Label    string            `json:"label"`
	Kind     string            `json:"kind"`
	Detail   string            `json:"detail"`
	Model    map[string]string `json:"model"`
	Native   *replayResult     `json:"native_result,omitempty"`
}

func confirms(v interp.Violation, r *replayResult) bool {
	if r == nil {
		return false
	}
	switch v.Kind {
	case "panic":
		return r.Panic != ""
	case "hang":
		return r.Hang
	}
	for _, f := range r.Failed {
		if f == v.Label {
			return true
		}
	}
	return false
}

func cmdCheck(args []string) int {
	if len(args) < 1 {
		fmt.Fprintln(os.Stderr, "usage: gosym check <ID> [--tier quick|thorough]")
		return 2
	}
	id := args[0]
	tier := envOr("VERIF_TIER", "quick")
	for k := 1; k < len(args); k++ {
		if args[k] == "--tier" && k+1 < len(args) {
			tier = args[k+1]
		}
	}
	seed, _ := strconv.Atoi(envOr("VERIF_SEED", "0"))
	if tier == "thorough" && os.Getenv("VERIF_CROSSCHECK") == "" {
		// thorough tier: a sample of the assertion queries is re-decided by z3 5.1 and cvc5
		os.Setenv("VERIF_CROSSCHECK", "12")
	}
	cfgs, kf := readCfg()
	cfg := cfgs[id]
	if cfg == nil {
		fmt.Fprintf(os.Stderr, "no check configured for %s\n", id)
		return 2
	}
	t0 := time.Now()
	work := filepath.Join(verifDir, ".work", strconv.Itoa(os.Getpid()))
	os.MkdirAll(work, 0o755)
	defer os.RemoveAll(work)

	var known []interp.Known
	for _, k := range kf.Findings {
		if k.Property == id {
			known = append(known, k)
		}
	}

	var reports []harnessReport
	funcs := map[string]bool{}
	stubs := map[string]bool{}
	var inconclusive []string
	var samples []interface{}
	exit := 0
	totalPaths, totalDec, totalQ, totalDis := 0, int64(0), int64(0), int64(0)
	solverS := 0.0
	validated, validatedBad := 0, 0
	nviol := 0
	digests := map[string]string{}
	var knownLines []string
	seenKnown := map[string]bool{}
	nontrivial := 0
	coverDecl, coverHit := map[string]bool{}, map[string]bool{}
	crossChecked, crossAgree, crossUnknown := 0, 0, 0

	for _, rc := range cfg.Runs {
		hs := rc.Quick
		if tier == "thorough" && len(rc.Thorough) > 0 {
			hs = rc.Thorough
		}
		if len(hs) == 0 {
			continue
		}
		if rc.Samples == 0 {
			rc.Samples = 3
		}
		ld := load(rc.Dir, work)
		digests[rc.Dir] = ld.digest
		setInitAllow(ld, rc)
		var cases []replayCase
		type pending struct {
			v     interp.Violation
			known bool
			idx   int
		}
		var pend []pending
		type sampled struct {
			sm  interp.Sample
			idx int
		}
		var sampleOf []sampled
		for _, h := range hs {
			s := newSession(ld, rc, h, id, known)
			th := time.Now()
			s.Explore(workers())
			rep := harnessReport{Harness: h, Package: ld.pkg.Pkg.Path(), Paths: s.Paths, Decisions: s.Decisions, MaxDecisions: s.MaxDecisions,
				Queries: s.Queries, Discharged: s.Discharged, SolverS: s.SolverTime.Seconds(), SlowestMs: s.SlowestQuery.Milliseconds(),
				WallS: time.Since(th).Seconds(), Outcomes: s.Outcomes, Asserts: s.AssertsByLbl, Covers: map[string]bool{}, Unknown: s.Unknowns}
			for c := range s.CoverDecl {
				rep.Covers[c] = s.Covers[c]
				coverDecl[c] = true
				if s.Covers[c] {
					coverHit[c] = true
				}
			}
			reports = append(reports, rep)
			crossChecked += s.CrossChecked
			crossAgree += s.CrossAgree
			crossUnknown += s.CrossUnknown
			totalPaths += s.Paths
			totalDec += s.Decisions
			totalQ += s.Queries
			totalDis += s.Discharged
			solverS += s.SolverTime.Seconds()
			for f := range s.Funcs {
				funcs[f] = true
			}
			for f := range s.StubsUsed {
				stubs[f] = true
			}
			for _, m := range s.Inconclusive {
				inconclusive = append(inconclusive, h+": "+m)
			}
			for k, n := range s.Outcomes {
				if k == "ok" || strings.HasPrefix(k, "panic") {
					nontrivial += n
				}
			}
			for _, v := range s.Viol {
				pend = append(pend, pending{v, false, len(cases)})
				cases = append(cases, replayCase{h, v.Model, expectOf(v)})
			}
			for _, v := range s.KnownHits {
				pend = append(pend, pending{v, true, len(cases)})
				cases = append(cases, replayCase{h, v.Model, expectOf(v)})
			}
			for _, sm := range s.Samples {
				sampleOf = append(sampleOf, sampled{sm, len(cases)})
				cases = append(cases, replayCase{h, sm.Model, ""})
				if len(samples) < 6 {
					samples = append(samples, map[string]interface{}{"harness": h, "outcome": sm.Outcome, "branch_decisions": sm.Decision, "inputs": sm.Model, "observed": sm.Observed})
				}
			}
			fmt.Printf("  %-34s paths=%-6d queries=%-8d unsat-asserts=%-7d wall=%.1fs\n", h, s.Paths, s.Queries, s.Discharged, time.Since(th).Seconds())
		}
		// native replay of violations, known findings and sampled paths
		res, rlog, err := nativeReplay(rc.Dir, ld, cases, work)
		if err != nil {
			inconclusive = append(inconclusive, "native replay failed: "+err.Error())
			os.WriteFile(filepath.Join(verifDir, "evidence", id+".replay.log"), []byte(rlog), 0o644)
		}
		for _, p := range pend {
			var r *replayResult
			if res != nil {
				r = res[p.idx]
			}
			if !confirms(p.v, r) && p.known && p.v.Nondet {
				// a RECORDED finding whose native behaviour depends on the real scheduler, map order or
				// time: not re-witnessing it in this run is no evidence against the encoding (it was
				// demonstrated when it was recorded); say so and go on.  New violations never take this path.
				if !seenKnown[p.v.KnownID] {
					seenKnown[p.v.KnownID] = true
					what := ""
					for _, kk := range known {
						if kk.ID == p.v.KnownID {
							what = kk.What
						}
					}
					knownLines = append(knownLines, fmt.Sprintf("KNOWN-FINDING: property=%s %s [%s; found symbolically at %s %s; the nondeterministic native replay did not re-witness it in this run]", id, what, p.v.KnownID, p.v.Harness, modelStr(p.v.Model)))
				}
				continue
			}
			if !confirms(p.v, r) {
				rb, _ := json.Marshal(r)
				inconclusive = append(inconclusive, fmt.Sprintf("ENCODING-MISMATCH: %s %s: the solver's model did not reproduce natively (native result %s, model %v)", p.v.Harness, p.v.Label, rb, p.v.Model))
				continue
			}
			if p.known {
				if !seenKnown[p.v.KnownID] {
					seenKnown[p.v.KnownID] = true
					what := ""
					for _, kk := range known {
						if kk.ID == p.v.KnownID {
							what = kk.What
						}
					}
					knownLines = append(knownLines, fmt.Sprintf("KNOWN-FINDING: property=%s %s [%s; witness %s %s]", id, what, p.v.KnownID, p.v.Harness, modelStr(p.v.Model)))
				}
				continue
			}
			nviol++
			os.MkdirAll(filepath.Join(verifDir, "replays"), 0o755)
			vf := violationFile{Property: id, Dir: rc.Dir, Harness: p.v.Harness, Label: p.v.Label, Kind: p.v.Kind, Detail: p.v.Detail, Model: p.v.Model, Native: r}
			vb, _ := json.MarshalIndent(vf, "", " ")
			hsh := sha256.Sum256(vb)
			path := filepath.Join(verifDir, "replays", fmt.Sprintf("%s-%s.json", id, hex.EncodeToString(hsh[:])[:10]))
			os.WriteFile(path, vb, 0o644)
			fmt.Printf("  violated: %s in %s (%s %s) inputs %s\n", p.v.Label, p.v.Harness, p.v.Kind, p.v.Detail, modelStr(p.v.Model))
			fmt.Printf("VIOLATION property=%s replay=%s\n", id, path)
			exit = 1
		}
		// translator validation: sampled completed paths must behave natively as predicted
		for _, so := range sampleOf {
			sm := so.sm
			var r *replayResult
			if res != nil {
				r = res[so.idx]
			}
			if r == nil {
				continue
			}
			ok := r.Panic == "" && !r.Hang && r.AssumeBad == ""
			// the assertions failing natively must be exactly those predicted for these inputs
			predicted := map[string]bool{}
			for _, f := range sm.Failing {
				predicted[f] = true
			}
			nativeFail := map[string]bool{}
			for _, f := range r.Failed {
				if labelOf(f, id) {
					nativeFail[f] = true
					if !predicted[f] {
						ok = false
					}
				}
			}
			for f := range predicted {
				if !nativeFail[f] {
					ok = false
				}
			}
			for lbl, want := range sm.Observed {
				if got, has := r.Observed[lbl]; !has || got != want {
					ok = false
				}
			}
			if ok {
				validated++
			} else {
				validatedBad++
				rb, _ := json.Marshal(r)
				inconclusive = append(inconclusive, fmt.Sprintf("ENCODING-MISMATCH: sampled path of %s behaves differently natively: predicted %v, native %s, inputs %v", sm.Harness, sm.Observed, rb, sm.Model))
			}
		}
	}
	// vacuity guard: every declared reachability witness must be reached by some harness of the check
	for c := range coverDecl {
		if !coverHit[c] {
			inconclusive = append(inconclusive, fmt.Sprintf("cover witness %q unreachable in every harness (vacuity guard)", c))
		}
	}
	for _, l := range knownLines {
		fmt.Println(l)
	}
	if len(inconclusive) > 0 && exit == 0 {
		exit = 2
	}
	for _, m := range inconclusive {
		fmt.Println("INCONCLUSIVE:", m)
	}
	// evidence
	var fl, sl []string
	for f := range funcs {
		fl = append(fl, f)
	}
	for f := range stubs {
		sl = append(sl, f)
	}
	sort.Strings(fl)
	sort.Strings(sl)
	if len(samples) == 0 {
		samples = append(samples, map[string]interface{}{"note": "no completed path sampled"})
	}
	cov := map[string]interface{}{
		"states":                        totalPaths,
		"transitions":                   totalDec,
		"traces_validated_against_impl": validated,
		"samples":                       samples,
		"obligations":                   totalQ,
		"discharged":                    totalDis,
		"evaluations":                   totalPaths,
		"distinct_nontrivial":           nontrivial,
		"rule":                          "one evaluation = one feasible symbolic path of the real SSA (distinct decision vector, solver-checked feasible); non-trivial = the path ran the code under test to completion or to a panic (paths pruned by assumptions are not counted)",
		"explanation":                   "states = feasible symbolic paths explored; transitions = solver-decided branch decisions; obligations = solver queries issued; discharged = assertion queries answered unsat (assertion holds for every input on that path)",
		"exhaustive":                    exit == 0,
		"bounds":                        cfg.Bounds,
		"outside_the_claim":             cfg.Outside,
		"functions_encoded":             fl,
		"stubs_and_models":              sl,
		"source_digests":                digests,
		"harnesses":                     reports,
		"solver_time_s":                 solverS,
		"solver":                        "z3 4.8.12 (incremental, one session per worker), int-wrap encoding; see DESIGN.md §2",
		"known_findings_witnessed":      knownLines,
		"cover_witnesses_reached":       coverHit,
		"solver_cross_check":            map[string]int{"assertion_queries_rechecked": crossChecked, "second_solver_answers_agreeing": crossAgree, "second_solver_unknown": crossUnknown},
		"inconclusive":                  inconclusive,
		"traces_mismatching_impl":       validatedBad,
	}
	ev := map[string]interface{}{
		"property_id": id, "tier": tier, "seed": seed, "level": "model_checking", "coverage": cov,
		"assumptions": cfg.Assumptions, "wall_s": time.Since(t0).Seconds(), "violations": nviol,
	}
	os.MkdirAll(filepath.Join(verifDir, "evidence"), 0o755)
	eb, _ := json.MarshalIndent(ev, "", " ")
	os.WriteFile(filepath.Join(verifDir, "evidence", id+".json"), eb, 0o644)
	fmt.Printf("%s tier=%s paths=%d queries=%d unsat-assertions=%d validated-traces=%d wall=%.1fs exit=%d\n", id, tier, totalPaths, totalQ, totalDis, validated, time.Since(t0).Seconds(), exit)
	return exit
}

// labelOf: does assertion label f belong to property id (or to all)?
func labelOf(f, id string) bool {
	i := strings.Index(f, "/")
	if i < 0 {
		return true
	}
	for _, p := range strings.Split(f[:i], ",") {
		if p == id {
			return true
		}
	}
	return false
}

func modelStr(m map[string]string) string {
	var ks []string
	for k := range m {
		ks = append(ks, k)
	}
	sort.Strings(ks)
	var sb strings.Builder
	for i, k := range ks {
		if i > 0 {
			sb.WriteString(" ")
		}
		sb.WriteString(k + "=" + m[k])
	}
	return sb.String()
}

func cmdReplay(args []string) int {
	if len(args) < 2 {
		fmt.Fprintln(os.Stderr, "usage: gosym replay <ID> <file>")
		return 2
	}
	b, err := os.ReadFile(args[1])
	must(err)
	var vf violationFile
	must(json.Unmarshal(b, &vf))
	work := filepath.Join(verifDir, ".work", strconv.Itoa(os.Getpid()))
	os.MkdirAll(work, 0o755)
	defer os.RemoveAll(work)
	// native replay needs only the overlay file map
	ld := &loaded{files: map[string]string{}, pkgName: pkgNameOf(vf.Dir)}
	tmpl, err := os.ReadFile(filepath.Join(verifDir, "harness", "support.go.tmpl"))
	must(err)
	supReal := filepath.Join(work, "support.go")
	os.WriteFile(supReal, bytes.ReplaceAll(tmpl, []byte("PKGNAME"), []byte(ld.pkgName)), 0o644)
	ld.files[filepath.Join(repoDir, vf.Dir, "zz_verif_support.go")] = supReal
	ents, _ := os.ReadDir(harnessDir(vf.Dir))
	for _, e := range ents {
		if strings.HasSuffix(e.Name(), ".go") {
			ld.files[filepath.Join(repoDir, vf.Dir, "zz_verif_"+e.Name())] = filepath.Join(harnessDir(vf.Dir), e.Name())
		}
	}
	res, log, err := nativeReplay(vf.Dir, ld, []replayCase{{vf.Harness, vf.Model, expectOf(interp.Violation{Label: vf.Label, Kind: vf.Kind})}}, work)
	if err != nil {
		fmt.Println(log)
		fmt.Println("replay failed:", err)
		return 2
	}
	rb, _ := json.MarshalIndent(res[0], "", " ")
	fmt.Printf("native replay of %s (%s, %s):\n%s\n", vf.Harness, vf.Label, modelStr(vf.Model), rb)
	if confirms(interp.Violation{Label: vf.Label, Kind: vf.Kind}, res[0]) {
		fmt.Printf("VIOLATION property=%s replay=%s\n", vf.Property, args[1])
		return 1
	}
	fmt.Println("not reproduced on the current tree")
	return 0
}
