// Package zzverif holds Go-level models of third-party functions.  It exists
// only in the go/packages overlay used by gosym; each model is attached to the
// function it replaces by a `//verif:stub <ssa name>` directive.
package zzverif

import (
	"context"
	"time"
)

// Err models cockroachdb/errors values: a message and a cause chain.
type Err struct {
	Msg    string
	Cause  error
	Second error
}

func (e *Err) Error() string {
	if e.Cause != nil {
		if e.Msg == "" {
			return e.Cause.Error()
		}
		return e.Msg + ": " + e.Cause.Error()
	}
	return e.Msg
}

func (e *Err) Unwrap() error { return e.Cause }

//verif:stub github.com/cockroachdb/errors.New
//verif:stub github.com/pkg/errors.New
//verif:stub errors.New
func ErrNew(msg string) error { return &Err{Msg: msg} }

//verif:stub github.com/cockroachdb/errors.Wrap
//verif:stub github.com/pkg/errors.Wrap
func ErrWrap(err error, msg string) error {
	if err == nil {
		return nil
	}
	return &Err{Msg: msg, Cause: err}
}

//verif:stub github.com/cockroachdb/errors.WithStack
//verif:stub github.com/pkg/errors.WithStack
func ErrWithStack(err error) error { return err }

//verif:stub github.com/cockroachdb/errors.CombineErrors
func ErrCombine(a, b error) error {
	if a == nil {
		return b
	}
	if b == nil {
		return a
	}
	return &Err{Msg: "", Cause: a, Second: b}
}

//verif:stub github.com/cockroachdb/errors.Is
//verif:stub github.com/pkg/errors.Is
//verif:stub errors.Is
func ErrIs(err, target error) bool {
	for k := 0; k < 64; k++ {
		if err == target {
			return true
		}
		if err == nil {
			return false
		}
		u, ok := err.(interface{ Unwrap() error })
		if !ok {
			return false
		}
		err = u.Unwrap()
	}
	return false
}

//verif:stub github.com/cockroachdb/errors.Cause
//verif:stub github.com/pkg/errors.Cause
func ErrCause(err error) error {
	for k := 0; k < 64 && err != nil; k++ {
		u, ok := err.(interface{ Unwrap() error })
		if !ok {
			return err
		}
		n := u.Unwrap()
		if n == nil {
			return err
		}
		err = n
	}
	return err
}

//verif:stub errors.Unwrap
//verif:stub github.com/cockroachdb/errors.Unwrap
func ErrUnwrap(err error) error {
	u, ok := err.(interface{ Unwrap() error })
	if !ok {
		return nil
	}
	return u.Unwrap()
}

// ---- context model: a tree with cancellation flags, values and Done channels ----

// Ctx models a derived context.  Done() is a real channel (closed on
// cancellation), so selects on it behave as in Go under the scheduler.
type Ctx struct {
	Parent    context.Context
	Cancelled bool
	Key, Val  any
	HasVal    bool
	done      chan struct{}
	children  []*Ctx
}

var ErrCanceled error = &Err{Msg: "context canceled"}

func (c *Ctx) Deadline() (time.Time, bool) { return time.Time{}, false }
func (c *Ctx) Done() <-chan struct{} {
	if c.HasVal {
		if c.Parent == nil {
			return nil
		}
		return c.Parent.Done()
	}
	if c.done == nil {
		c.done = make(chan struct{})
		if c.Err() != nil {
			close(c.done)
		}
	}
	return c.done
}
func (c *Ctx) Err() error {
	if c.Cancelled {
		return ErrCanceled
	}
	if c.Parent != nil {
		return c.Parent.Err()
	}
	return nil
}
func (c *Ctx) Value(key any) any {
	if c.HasVal && c.Key == key {
		return c.Val
	}
	if c.Parent != nil {
		return c.Parent.Value(key)
	}
	return nil
}

// cancel marks the context and everything derived from it.
func (c *Ctx) cancel() {
	if !c.HasVal {
		if c.Cancelled {
			return
		}
		c.Cancelled = true
		if c.done != nil {
			close(c.done)
		}
	}
	for _, k := range c.children {
		k.cancel()
	}
}

func ctxDerive(parent context.Context, c *Ctx) *Ctx {
	if p, ok := parent.(*Ctx); ok {
		p.children = append(p.children, c)
	}
	return c
}

//verif:stub context.WithCancel
func CtxWithCancel(parent context.Context) (context.Context, context.CancelFunc) {
	c := ctxDerive(parent, &Ctx{Parent: parent})
	return c, c.cancel
}

// Timeouts never fire by themselves (no clock); a harness may let every deadline
// armed so far elapse at a point of its choosing with ExpireTimeouts.
var ctxTimed []*Ctx

// ExpireTimeouts: every context created by WithTimeout / WithDeadline so far is done.
func ExpireTimeouts() {
	for _, c := range ctxTimed {
		c.cancel()
	}
	ctxTimed = nil
}

//verif:stub context.WithTimeout
func CtxWithTimeout(parent context.Context, _ time.Duration) (context.Context, context.CancelFunc) {
	c := ctxDerive(parent, &Ctx{Parent: parent})
	ctxTimed = append(ctxTimed, c)
	return c, c.cancel
}

//verif:stub context.WithDeadline
func CtxWithDeadline(parent context.Context, _ time.Time) (context.Context, context.CancelFunc) {
	c := ctxDerive(parent, &Ctx{Parent: parent})
	return c, c.cancel
}

//verif:stub context.WithValue
func CtxWithValue(parent context.Context, key, val any) context.Context {
	return ctxDerive(parent, &Ctx{Parent: parent, Key: key, Val: val, HasVal: true})
}
