package wal

// C16: the recovery log replays exactly the uncommitted events.

import (
	"context"
	"errors"
	"fmt"
	"os"
	"sort"
	"time"

	"github.com/alphadose/haxmap"

	"github.com/projecteru2/core/wal/kv"
)

// vKV: the kv.KV contract as an ordered in-memory table with a sequence counter
// (persistence and the bbolt file are outside the claim).
type vKV struct {
	data map[string][]byte
	seq  uint64
	seqs []uint64
}

func (k *vKV) Open(string, os.FileMode, time.Duration) error { return nil }
func (k *vKV) Close() error                                  { return nil }
func (k *vKV) Put(key, val []byte) error                     { k.data[string(key)] = val; return nil }
func (k *vKV) Get(key []byte) ([]byte, error) {
	v, ok := k.data[string(key)]
	if !ok {
		return nil, errors.New("no such key")
	}
	return v, nil
}
func (k *vKV) Delete(key []byte) error { delete(k.data, string(key)); return nil }
func (k *vKV) NextSequence() (uint64, error) {
	k.seq++
	k.seqs = append(k.seqs, k.seq)
	return k.seq, nil
}

type vEntry struct{ key, val []byte }

func (e vEntry) Pair() ([]byte, []byte) { return e.key, e.val }
func (e vEntry) Error() error           { return nil }

func (k *vKV) Scan(prefix []byte) (<-chan kv.ScanEntry, func()) {
	var keys []string
	for key := range k.data {
		if len(key) >= len(prefix) && key[:len(prefix)] == string(prefix) {
			keys = append(keys, key)
		}
	}
	sort.Strings(keys)
	ch := make(chan kv.ScanEntry, len(keys)+1)
	for _, key := range keys {
		ch <- vEntry{[]byte(key), k.data[key]}
	}
	close(ch)
	return ch, func() {}
}

// vHandler: every outcome of Decode / Check / Handle is symbolic per call.
type vHandler struct {
	typ     string
	calls   *[]string // "<stage>:<payload>"
	n       *int
	verdict map[string]string // payload -> "removed" | "kept" (what the outcomes of this recovery imply)
}

func (h vHandler) Typ() string { return h.typ }
func (h vHandler) Encode(item any) ([]byte, error) {
	return []byte(item.(string)), nil
}
func (h vHandler) outcome(stage string) bool {
	*h.n++
	return vBool(fmt.Sprintf("%s_fails_%d", stage, *h.n))
}
func (h vHandler) Decode(bs []byte) (any, error) {
	*h.calls = append(*h.calls, "decode:"+string(bs))
	if h.outcome("decode") {
		h.verdict[string(bs)] = "kept"
		return nil, errors.New("decode error")
	}
	return string(bs), nil
}
func (h vHandler) Check(_ context.Context, item any) (bool, error) {
	*h.calls = append(*h.calls, "check:"+item.(string))
	if h.outcome("check") {
		h.verdict[item.(string)] = "kept"
		return false, errors.New("check error")
	}
	if vBool(fmt.Sprintf("not_needed_%d", *h.n)) {
		h.verdict[item.(string)] = "removed"
		return false, nil
	}
	return true, nil
}
func (h vHandler) Handle(_ context.Context, item any) error {
	*h.calls = append(*h.calls, "handle:"+item.(string))
	if h.outcome("handle") {
		h.verdict[item.(string)] = "kept"
		return errors.New("handle error")
	}
	h.verdict[item.(string)] = "removed"
	return nil
}

// VerifHydro: an operation sequence of length `ops` over {log a, log b, log an
// unregistered type, commit the k-th logged event, recover}.
func VerifHydro(arg string) {
	nops := vParam(arg, "ops", 3)
	alphabet := 7
	if vParam(arg, "c", 1) == 0 {
		alphabet = 5 // without the operations on the third type (deeper sequences)
	}
	store := &vKV{data: map[string][]byte{}}
	// the log file may already have handed out ids: start below a hex-digit boundary
	store.seq = []uint64{0, 14, 254, 65534}[vChoose("ids_already_used", 4)]
	base := store.seq
	h := &Hydro{Map: haxmap.New[string, EventHandler](), store: store}
	var calls []string
	n := 0
	verdict := map[string]string{}
	h.Register(vHandler{typ: "a", calls: &calls, n: &n, verdict: verdict})
	h.Register(vHandler{typ: "b", calls: &calls, n: &n, verdict: verdict})
	// a third type whose handler may disappear (a restart with a binary that no longer has it)
	h.Register(vHandler{typ: "c", calls: &calls, n: &n, verdict: verdict})
	cRegistered := true

	type logged struct {
		typ     string
		payload string
		commit  Commit
		live    bool
	}
	var evs []*logged
	ctx := context.Background()
	for step := 0; step < nops; step++ {
		switch op := vChoose(fmt.Sprintf("op_%d", step), alphabet); op {
		case 5: // restart: same store, the handler of type c is no longer registered
			if !cRegistered {
				continue
			}
			h = &Hydro{Map: haxmap.New[string, EventHandler](), store: store}
			h.Register(vHandler{typ: "a", calls: &calls, n: &n, verdict: verdict})
			h.Register(vHandler{typ: "b", calls: &calls, n: &n, verdict: verdict})
			cRegistered = false
			vCover("handler-unregistered", true)
		case 0, 1, 6:
			typ := map[int]string{0: "a", 1: "b", 6: "c"}[op]
			if typ == "c" && !cRegistered {
				continue
			}
			payload := fmt.Sprintf("e%d", len(evs)+1)
			commit, err := h.Log(typ, payload)
			vAssert("C16/log-of-registered-type-succeeds", err == nil && commit != nil)
			if err == nil {
				evs = append(evs, &logged{typ: typ, payload: payload, commit: commit, live: true})
			}
		case 2:
			_, err := h.Log("unregistered", "x")
			vAssert("C16/log-of-unknown-type-refused", err != nil)
		case 3:
			if len(evs) == 0 {
				continue
			}
			k := vChoose(fmt.Sprintf("commit_%d", step), len(evs))
			if evs[k].live {
				vAssert("C16/commit-succeeds", evs[k].commit() == nil)
				evs[k].live = false
			}
		case 4:
			vCover("recovered", true)
			calls = nil
			for k := range verdict {
				delete(verdict, k)
			}
			before := map[string]bool{}
			for _, e := range evs {
				before[e.payload] = e.live
			}
			h.Recover(ctx)
			// per event: which stages ran, in which order
			lastIdx := -1
			for _, c := range calls {
				stage, payload := vSplit(c)
				idx := -1
				for j, e := range evs {
					if e.payload == payload {
						idx = j
					}
				}
				vAssert("C16/handlers-only-for-logged-events", idx >= 0)
				if idx < 0 {
					continue
				}
				vAssert("C16/handlers-only-for-uncommitted-events", before[payload])
				vAssert("C16/replay-in-logging-order", idx >= lastIdx)
				if stage == "decode" {
					vAssert("C16/each-event-at-most-once-per-recovery", idx > lastIdx)
				}
				lastIdx = idx
			}
			for _, e := range evs {
				if !before[e.payload] {
					continue
				}
				if e.typ == "c" && !cRegistered {
					// an event whose type has no handler any more is kept and skipped
					vCover("event-of-unregistered-type-at-recovery", true)
					_, stillThere := store.data[string(HydroEvent{ID: base + vIDOf(e.payload)}.Key())]
					vAssert("C16/event-of-unregistered-type-is-kept", stillThere)
					vAssert("C16/event-of-unregistered-type-is-skipped", !vHas(calls, "decode:"+e.payload))
					continue
				}
				vAssert("C16/every-uncommitted-event-is-replayed", vHas(calls, "decode:"+e.payload))
				// removed exactly when its handler succeeded or declared it unnecessary
				_, stillThere := store.data[string(HydroEvent{ID: base + vIDOf(e.payload)}.Key())]
				removedExpected := verdict[e.payload] == "removed"
				vAssert("C16/removed-iff-handled-or-unnecessary", stillThere == !removedExpected)
				if removedExpected {
					e.live = false
				}
			}
		}
	}
	// ids are never reused
	for j := 1; j < len(store.seqs); j++ {
		vAssert("C16/ids-strictly-increasing", store.seqs[j] > store.seqs[j-1])
	}
}

func vSplit(c string) (string, string) {
	for j := 0; j < len(c); j++ {
		if c[j] == ':' {
			return c[:j], c[j+1:]
		}
	}
	return c, ""
}

func vHas(calls []string, s string) bool {
	for _, c := range calls {
		if c == s {
			return true
		}
	}
	return false
}

func vIDOf(payload string) uint64 {
	var id uint64
	for j := 1; j < len(payload); j++ {
		id = id*10 + uint64(payload[j]-'0')
	}
	return id
}

func init() {
	vRegisterP("VerifHydro", VerifHydro)
}
