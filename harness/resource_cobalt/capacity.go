package cobalt

// C09 (multi-plugin capacity aggregation is independent of plugin order) and
// the manager half of C07 (total is the saturating sum).

import (
	"context"
	"fmt"
	"math"

	"github.com/projecteru2/core/resource/plugins"
	plugintypes "github.com/projecteru2/core/resource/plugins/types"
	resourcetypes "github.com/projecteru2/core/resource/types"
)

// vPlugin answers GetNodesDeployCapacity with a fixed (fresh per call) answer.
type vPlugin struct {
	plugins.Plugin
	name   string
	offers map[string]plugintypes.NodeDeployCapacity
}

func (p *vPlugin) Name() string { return p.name }

func (p *vPlugin) GetNodesDeployCapacity(context.Context, []string, plugintypes.WorkloadResourceRequest) (*plugintypes.GetNodesDeployCapacityResponse, error) {
	resp := &plugintypes.GetNodesDeployCapacityResponse{NodeDeployCapacityMap: map[string]*plugintypes.NodeDeployCapacity{}}
	for n, c := range p.offers {
		cp := c
		resp.NodeDeployCapacityMap[n] = &cp
		if resp.Total == math.MaxInt || c.Capacity == math.MaxInt {
			resp.Total = math.MaxInt
		} else {
			resp.Total += c.Capacity
		}
	}
	return resp, nil
}

var vNodes = []string{"na", "nb", "nc"}
var vWeights = []float64{1, 2, 100}

// VerifMerge. arg: p=<plugins 1..3>,n=<nodes 1..3>,cap=<max finite capacity>
func VerifMerge(arg string) {
	np := vParam(arg, "p", 2)
	nn := vParam(arg, "n", 2)
	var ps []*vPlugin
	for k := 0; k < np; k++ {
		p := &vPlugin{name: fmt.Sprintf("plugin%d", k), offers: map[string]plugintypes.NodeDeployCapacity{}}
		for j := 0; j < nn; j++ {
			tag := fmt.Sprintf("p%d_%s_", k, vNodes[j])
			if !vBool(tag + "offered") {
				continue
			}
			// finite capacities up to 2^40 (memory / request) or the unlimited sentinel
			c := vIte(vBool(tag+"unlimited"), math.MaxInt, vInt(tag+"capacity", 1, 1<<40))
			// each plugin answers one weight per request kind (cpumem: 1 or 100)
			w := vWeights[vChoose(fmt.Sprintf("p%d_weight", k), len(vWeights))]
			p.offers[vNodes[j]] = plugintypes.NodeDeployCapacity{
				Capacity: c,
				Usage:    vGrid(tag+"usage", 6, 0, 1<<12),
				Rate:     vGrid(tag+"rate", 6, 0, 1<<12),
				Weight:   w,
			}
		}
		ps = append(ps, p)
	}
	mk := func(order []int) Manager {
		m := Manager{}
		for _, k := range order {
			m.plugins = append(m.plugins, ps[k])
		}
		return m
	}
	// identity order and a symbolic permutation of the plugins (the order in which
	// answers are merged follows the plugin list in the interpreter)
	ident := make([]int, np)
	for k := range ident {
		ident[k] = k
	}
	perm := vPermInts("plugin_order", np)

	ctx := context.Background()
	r1, t1, err1 := mk(ident).GetNodesDeployCapacity(ctx, vNodes[:nn], resourcetypes.Resources{})
	r2, t2, err2 := mk(perm).GetNodesDeployCapacity(ctx, vNodes[:nn], resourcetypes.Resources{})
	vAssert("C09/aggregation-succeeds", err1 == nil && err2 == nil)
	if err1 != nil || err2 != nil {
		return
	}
	total := 0
	for j := 0; j < nn; j++ {
		n := vNodes[j]
		all := true
		minCap := math.MaxInt
		var wsum, usum, rsum float64
		for k := 0; k < np; k++ {
			o, ok := ps[k].offers[n]
			if !ok {
				all = false
				continue
			}
			minCap = vMin(minCap, o.Capacity)
			wsum += o.Weight
			usum += o.Usage * o.Weight
			rsum += o.Rate * o.Weight
		}
		a, in1 := r1[n]
		b, in2 := r2[n]
		vAssert("C09/offered-iff-every-plugin-offers", in1 == all && in2 == all)
		if !all || !in1 || !in2 {
			continue
		}
		vCover("node-offered-by-all", true)
		vAssert("C09/capacity-is-minimum", a.Capacity == minCap)
		// weight-averaged usage and rate (compared as exact fractions)
		vAssert("C09/usage-is-weighted-average", a.Usage == usum/wsum)
		vAssert("C09/rate-is-weighted-average", a.Rate == rsum/wsum)
		vAssert("C09/order-independent-capacity", a.Capacity == b.Capacity)
		vAssert("C09/order-independent-usage", a.Usage == b.Usage)
		vAssert("C09/order-independent-rate", a.Rate == b.Rate)
		s := total + minCap
		total = vIte(vOr(s < total, vOr(total == math.MaxInt, minCap == math.MaxInt)), math.MaxInt, s)
	}
	vCover("unlimited-total", total == math.MaxInt)
	vCover("finite-total", total < math.MaxInt)
	vAssert("C07/manager-total-is-saturating-sum", vAnd(t1 == total, t2 == total))
	vAssert("C09/order-independent-total", t1 == t2)
}

func vPermInts(tag string, n int) []int {
	left := make([]int, n)
	for k := range left {
		left[k] = k
	}
	var out []int
	for len(left) > 1 {
		k := vChoose(fmt.Sprintf("%s_%d", tag, len(left)), len(left))
		out = append(out, left[k])
		left = append(left[:k], left[k+1:]...)
	}
	return append(out, left...)
}

func init() {
	vRegisterP("VerifMerge", VerifMerge)
}
