package cobalt

// C08 at the resource-manager layer: Manager.Alloc / RollbackAlloc / Realloc /
// RollbackRealloc / SetNodeResourceUsage with two model plugins that keep a
// scalar usage per node with the plugin contract's delta/incr semantics.

import (
	"context"
	"errors"

	"github.com/projecteru2/core/resource/plugins"
	plugintypes "github.com/projecteru2/core/resource/plugins/types"
	resourcetypes "github.com/projecteru2/core/resource/types"
)

var vErrPlugin = errors.New("injected plugin failure")

// The single fault is "the first call of method M on plugin P" (the manager
// calls its plugins from one goroutine each, so a positional fault would not
// replay deterministically).

// vLPlugin: usage(node) is a single number; requests carry {"amount": n}.
type vLPlugin struct {
	plugins.Plugin
	name   string
	failOn string // method whose first call fails ("" = none)
	calls  map[string]int
	usage  map[string]int
}

func (p *vLPlugin) fault(method string) bool {
	if p.calls == nil {
		p.calls = map[string]int{}
	}
	p.calls[method]++
	return p.failOn == method && p.calls[method] == 1
}

func (p *vLPlugin) Name() string { return p.name }

func vAmt(r resourcetypes.RawParams) int {
	a, _ := r["amount"].(int)
	return a
}

func (p *vLPlugin) CalculateDeploy(_ context.Context, _ string, count int, req plugintypes.WorkloadResourceRequest) (*plugintypes.CalculateDeployResponse, error) {
	if p.fault("CalculateDeploy") {
		return nil, vErrPlugin
	}
	resp := &plugintypes.CalculateDeployResponse{}
	for i := 0; i < count; i++ {
		resp.EnginesParams = append(resp.EnginesParams, resourcetypes.RawParams{p.name + "-limit": vAmt(req)})
		resp.WorkloadsResource = append(resp.WorkloadsResource, resourcetypes.RawParams{"amount": vAmt(req)})
	}
	return resp, nil
}

func (p *vLPlugin) CalculateRealloc(_ context.Context, _ string, origin plugintypes.WorkloadResource, req plugintypes.WorkloadResourceRequest) (*plugintypes.CalculateReallocResponse, error) {
	if p.fault("CalculateRealloc") {
		return nil, vErrPlugin
	}
	n := vAmt(origin) + vAmt(req)
	return &plugintypes.CalculateReallocResponse{
		EngineParams:     resourcetypes.RawParams{p.name + "-limit": n},
		DeltaResource:    resourcetypes.RawParams{"amount": vAmt(req)},
		WorkloadResource: resourcetypes.RawParams{"amount": n},
	}, nil
}

func (p *vLPlugin) SetNodeResourceUsage(_ context.Context, node string, res plugintypes.NodeResource, _ plugintypes.NodeResourceRequest, ws []plugintypes.WorkloadResource, delta bool, incr bool) (*plugintypes.SetNodeResourceUsageResponse, error) {
	if p.fault("SetNodeResourceUsage") {
		return nil, vErrPlugin
	}
	before := p.usage[node]
	sum := 0
	if res != nil {
		sum = vAmt(res)
	} else {
		for _, w := range ws {
			sum += vAmt(w)
		}
	}
	switch {
	case !delta: // rewrite
		p.usage[node] = sum
	case incr:
		p.usage[node] += sum
	default:
		p.usage[node] -= sum
	}
	return &plugintypes.SetNodeResourceUsageResponse{Before: resourcetypes.RawParams{"amount": before}, After: resourcetypes.RawParams{"amount": p.usage[node]}}, nil
}

// VerifManagerLedger. arg: op=<0 alloc+rollback | 1 realloc+rollback | 2 release>
func VerifManagerLedger(arg string) {
	op := vParam(arg, "op", 0)
	p1 := &vLPlugin{name: "pa", usage: map[string]int{"n": vInt("usage_pa", 0, 1<<30)}}
	p2 := &vLPlugin{name: "pb", usage: map[string]int{"n": vInt("usage_pb", 0, 1<<30)}}
	m := Manager{plugins: []plugins.Plugin{p1, p2}}
	u1, u2 := p1.usage["n"], p2.usage["n"]
	a1, a2 := vInt("amount_pa", 0, 1<<20), vInt("amount_pb", 0, 1<<20)
	opts := resourcetypes.Resources{"pa": {"amount": a1}, "pb": {"amount": a2}}
	// which plugin call fails: none, or the first Calculate* / SetNodeResourceUsage call of pa or pb
	methods := []string{"", "CalculateDeploy", "CalculateRealloc", "SetNodeResourceUsage"}
	switch vChoose("failing_plugin", 3) {
	case 1:
		p1.failOn = methods[vChoose("failing_method", 4)]
	case 2:
		p2.failOn = methods[vChoose("failing_method", 4)]
	}
	noMoreFaults := func() { p1.failOn, p2.failOn = "", "" }
	ctx := context.Background()
	switch op {
	case 0:
		count := vInt("count", 1, 2)
		ws, es, err := m.Alloc(ctx, "n", count, opts)
		vCover("alloc-ok", err == nil)
		vCover("alloc-failed", err != nil)
		if err != nil {
			vAssert("C08/failed-alloc-leaves-usage-unchanged", vAnd(p1.usage["n"] == u1, p2.usage["n"] == u2))
			return
		}
		k := vConcrete(count)
		vAssert("C08/alloc-returns-one-resource-per-instance", len(ws) == k && len(es) == k)
		for i := 0; i < k; i++ {
			vAssert("C08/alloc-routes-each-plugin-its-own-resources", vAnd(vAmt(ws[i]["pa"]) == a1, vAmt(ws[i]["pb"]) == a2))
		}
		vAssert("C08/alloc-usage-exact", vAnd(p1.usage["n"] == u1+k*a1, p2.usage["n"] == u2+k*a2))
		// no further faults: the rollback is the operation under test now
		noMoreFaults()
		vAssert("C08/rollback-alloc-succeeds", m.RollbackAlloc(ctx, "n", ws) == nil)
		vAssert("C08/rollback-alloc-restores-usage", vAnd(p1.usage["n"] == u1, p2.usage["n"] == u2))
	case 1:
		origin := resourcetypes.Resources{"pa": {"amount": vInt("origin_pa", 0, 1<<20)}, "pb": {"amount": vInt("origin_pb", 0, 1<<20)}}
		if vBool("realloc_names_only_pa") {
			// a request that names a subset of the plugins leaves the others' share as it is
			delete(opts, "pb")
			a2 = 0
		}
		_, delta, now, err := m.Realloc(ctx, "n", origin, opts)
		vCover("realloc-ok", err == nil)
		vCover("realloc-failed", err != nil)
		if err != nil {
			vAssert("C08/failed-realloc-leaves-usage-unchanged", vAnd(p1.usage["n"] == u1, p2.usage["n"] == u2))
			return
		}
		vAssert("C08/realloc-usage-exact", vAnd(p1.usage["n"] == u1+a1, p2.usage["n"] == u2+a2))
		vAssert("C08/realloc-resource-is-origin-plus-delta", vAnd(vAmt(now["pa"]) == vAmt(origin["pa"])+a1, vAmt(now["pb"]) == vAmt(origin["pb"])+a2))
		noMoreFaults()
		vAssert("C08/rollback-realloc-succeeds", m.RollbackRealloc(ctx, "n", delta) == nil)
		vAssert("C08/rollback-realloc-restores-usage", vAnd(p1.usage["n"] == u1, p2.usage["n"] == u2))
	case 2:
		w := resourcetypes.Resources{"pa": {"amount": a1}, "pb": {"amount": a2}}
		_, _, err := m.SetNodeResourceUsage(ctx, "n", nil, nil, []resourcetypes.Resources{w}, true, false)
		vCover("release-ok", err == nil)
		vCover("release-failed", err != nil)
		if err != nil {
			vAssert("C08/failed-release-leaves-usage-unchanged", vAnd(p1.usage["n"] == u1, p2.usage["n"] == u2))
			return
		}
		vAssert("C08/release-usage-exact", vAnd(p1.usage["n"] == u1-a1, p2.usage["n"] == u2-a2))
	}
}

func init() { vRegisterP("VerifManagerLedger", VerifManagerLedger) }
