package schedule

// Harnesses over schedule.GetCPUPlans for C04 (no overcommit), C05 (exact CPU
// amount), C06 (terminates, never panics) and the schedule half of C33.
//
// Argument string: c=<cores>,numa=<0|1>,r=<request in 1/1000 cores>,sb=<share base>,
// ms=<max share>,mp=<max pieces per core>,v=<0:V0 | 1:V1>

import (
	"github.com/projecteru2/core/resource/plugins/cpumem/types"
)

var vCores = []string{"0", "1", "2", "3", "4", "5"}

const vMemMax = 1 << 40

type vNode struct {
	n              int
	capP, useP     []int
	memCap, memUse int64
	numa           bool
	numaOf         []string // per core
	nCap, nUse     map[string]int64
	info           *types.NodeResourceInfo
}

// vMkNode builds an arbitrary node state accepted by NodeResourceInfo.Validate
// (executed below on the symbolic state), optionally restricted to V1.
func vMkNode(n int, numa bool, maxPieces int, v1 bool) *vNode {
	nd := &vNode{n: n, numa: numa, nCap: map[string]int64{}, nUse: map[string]int64{}}
	capacity := &types.NodeResource{CPUMap: types.CPUMap{}, NUMAMemory: types.NUMAMemory{}, NUMA: types.NUMA{}}
	usage := &types.NodeResource{CPUMap: types.CPUMap{}, NUMAMemory: types.NUMAMemory{}, NUMA: types.NUMA{}}
	capacity.CPU = float64(n)
	for i := 0; i < n; i++ {
		c := vInt("cap_core"+vCores[i], 0, maxPieces)
		u := vInt("use_core"+vCores[i], 0, maxPieces)
		vAssume(u <= c)
		nd.capP = append(nd.capP, c)
		nd.useP = append(nd.useP, u)
		capacity.CPUMap[vCores[i]] = c
		usage.CPUMap[vCores[i]] = u
	}
	nd.memCap = vInt64("mem_cap", 0, vMemMax)
	nd.memUse = vInt64("mem_use", 0, vMemMax)
	if v1 {
		vAssume(nd.memUse <= nd.memCap)
	}
	capacity.Memory = nd.memCap
	usage.Memory = nd.memUse
	if numa {
		// cores split over two NUMA nodes: first half on "0", rest on "1"
		var sumCap, sumUse int64
		for i := 0; i < n; i++ {
			id := "0"
			if i >= (n+1)/2 {
				id = "1"
			}
			nd.numaOf = append(nd.numaOf, id)
			capacity.NUMA[vCores[i]] = id
			usage.NUMA[vCores[i]] = id
		}
		for _, id := range []string{"0", "1"} {
			c := vInt64("numa_mem_cap"+id, 0, vMemMax)
			u := vInt64("numa_mem_use"+id, 0, vMemMax)
			vAssume(u <= c)
			nd.nCap[id], nd.nUse[id] = c, u
			capacity.NUMAMemory[id] = c
			usage.NUMAMemory[id] = u
			sumCap += c
			sumUse += u
		}
		if v1 {
			// NUMA memory is part of the node's memory; NUMA-bound workloads also
			// consume total memory (memory-only workloads consume total memory only)
			vAssume(vAnd(sumCap <= nd.memCap, sumUse <= nd.memUse))
		}
	}
	nd.info = &types.NodeResourceInfo{Capacity: capacity, Usage: usage}
	// V0: the plugin's own notion of a valid state, executed on the symbolic state
	if err := nd.info.Validate(); err != nil {
		vAssume(false)
	}
	return nd
}

func vPiecesOf(m types.CPUMap, core string) int {
	if p, ok := m[core]; ok {
		return p
	}
	return 0
}

// VerifPlans: C04 + C06 (+ C05 totals for the concrete request) on one shape.
func VerifPlans(arg string) {
	n := vParam(arg, "c", 2)
	numa := vParam(arg, "numa", 0) == 1
	r := vParam(arg, "r", 1000)
	sb := vParam(arg, "sb", 100)
	ms := vParam(arg, "ms", -1)
	mp := vParam(arg, "mp", 2*sb)
	v1 := vParam(arg, "v", 1) == 1
	nd := vMkNode(n, numa, mp, v1)
	memReq := vInt64("mem_request", 0, vMemMax)
	req := &types.WorkloadResourceRequest{CPUBind: true, CPURequest: float64(r) / 1000, MemRequest: memReq}
	req.CPULimit = req.CPURequest
	if err := req.Validate(); err != nil {
		vAssume(false)
	}

	if numa {
		vNoSample() // NUMA plan order follows Go's random map order natively
	}
	plans := GetCPUPlans(nd.info, nil, sb, ms, req)

	vCover("some-plan", len(plans) > 0)
	vCover("no-plan", len(plans) == 0)
	vObserve("plans", len(plans))
	wantPieces := (r*sb + 500) / 1000 // requested CPU times share base, to the nearest piece
	perNode := map[string]int{}
	used := make([]int, n)
	for k, p := range plans {
		tot := 0
		fragments := 0
		for id, pieces := range p.CPUMap {
			known := false
			for i := 0; i < n; i++ {
				if vCores[i] == id {
					known = true
					used[i] += pieces
					if p.NUMANode != "" {
						vAssert("C04/numa-plan-uses-only-its-cores", nd.numaOf[i] == p.NUMANode)
					}
				}
			}
			vAssert("C04/plan-uses-existing-cores", known)
			vAssert("C04/plan-pieces-positive", pieces > 0)
			vAssert("C05/whole-share-or-one-fragment", pieces <= sb)
			if vConcrete(pieces) != sb {
				fragments++
			}
			tot += pieces
		}
		if k == 0 {
			vObserve("first_total", tot)
		}
		vAssert("C05/plan-total-is-request", tot == wantPieces)
		vAssert("C05/at-most-one-fragment-core", fragments <= 1)
		perNode[p.NUMANode]++
	}
	for i := 0; i < n; i++ {
		vAssert("C04/core-not-overcommitted", used[i] <= nd.capP[i]-nd.useP[i])
	}
	if !v1 {
		// memory feasibility is claimed for V1 states only (free memory >= 0)
		return
	}
	cnt := int64(len(plans))
	if numa {
		for _, id := range []string{"0", "1"} {
			vAssert("C04/numa-memory-not-overcommitted", int64(perNode[id])*memReq <= nd.nCap[id]-nd.nUse[id])
		}
	}
	vAssert("C04/memory-not-overcommitted", vOr(cnt == 0, cnt*memReq <= nd.memCap-nd.memUse))
}

func init() {
	vRegisterP("VerifPlans", VerifPlans)
}

// VerifPiecesIEEE (C05, IEEE-754 semantics): for every request k/sb cores with
// lo <= k <= hi on a node of c free whole-share cores, the first plan carries
// exactly k pieces, as whole shares plus at most one fragment.
// arg: c=<cores>,sb=<share base>,lo=,hi=
func VerifPiecesIEEE(arg string) {
	n := vParam(arg, "c", 1)
	sb := vParam(arg, "sb", 100)
	lo := vParam(arg, "lo", 1)
	hi := vParam(arg, "hi", sb)
	capacity := &types.NodeResource{CPUMap: types.CPUMap{}, NUMAMemory: types.NUMAMemory{}, NUMA: types.NUMA{}}
	usage := &types.NodeResource{CPUMap: types.CPUMap{}, NUMAMemory: types.NUMAMemory{}, NUMA: types.NUMA{}}
	for i := 0; i < n; i++ {
		capacity.CPUMap[vCores[i]] = sb
		usage.CPUMap[vCores[i]] = 0
	}
	info := &types.NodeResourceInfo{Capacity: capacity, Usage: usage}
	k := vInt("k", lo, hi)
	// the request as the API receives it: the double nearest to the decimal k/sb
	req := &types.WorkloadResourceRequest{CPUBind: true, CPURequest: float64(k) / float64(sb)}
	plans := GetCPUPlans(info, nil, sb, -1, req)
	vCover("planned", len(plans) > 0)
	vAssert("C05/ieee-request-is-plannable", len(plans) > 0)
	if len(plans) == 0 {
		return
	}
	tot, fragments := 0, 0
	for _, pieces := range plans[0].CPUMap {
		tot += pieces
		vAssert("C05/ieee-whole-share-or-fragment", vAnd(pieces > 0, pieces <= sb))
		if vConcrete(vIte(pieces == sb, 1, 0)) == 0 {
			fragments++
		}
	}
	vObserve("first_total", tot)
	vAssert("C05/ieee-plan-total-is-request", tot == k)
	vAssert("C05/ieee-at-most-one-fragment", fragments <= 1)
}

func init() { vRegisterP("VerifPiecesIEEE", VerifPiecesIEEE) }
