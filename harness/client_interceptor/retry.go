package interceptor

// C36: client watch streams retry transparently.

import (
	"context"
	"errors"
	"fmt"
	"io"

	"github.com/cenkalti/backoff/v4"
	"google.golang.org/grpc"
)

//verif:zerofn github.com/cenkalti/backoff/v4.NewExponentialBackOff
//verif:zerofn (*github.com/cenkalti/backoff/v4.ExponentialBackOff).NextBackOff
//verif:zerofn (*github.com/cenkalti/backoff/v4.ExponentialBackOff).Reset

// vRetry models backoff.Retry by its documented contract: repeat the operation
// until it succeeds or the back-off policy says Stop; no sleeping.
//
//verif:stub github.com/cenkalti/backoff/v4.Retry
func vRetry(o backoff.Operation, b backoff.BackOff) error {
	b.Reset()
	for {
		err := o()
		if err == nil {
			return nil
		}
		if b.NextBackOff() == backoff.Stop {
			return err
		}
	}
}

var vErrBroken = errors.New("stream broken")

type vWorldRPC struct {
	cancel      context.CancelFunc
	cancelledAt int // the caller cancelled its context during this reopen attempt (0: never)
	opened      int
	streams     []*vStream
	recvCall    int
}

// vStream: one server stream; outcomes of its calls are symbolic.
type vStream struct {
	grpc.ClientStream
	w     *vWorldRPC
	id    int
	sent  []any // messages the server side of this stream actually received
	sends int
	recvs int
}

func (s *vStream) SendMsg(m any) error {
	s.sends++
	if vBool(fmt.Sprintf("stream%d_send%d_fails", s.id, s.sends)) {
		return vErrBroken
	}
	s.sent = append(s.sent, m)
	return nil
}

func (s *vStream) RecvMsg(m any) error {
	s.recvs++
	s.w.recvCall++
	switch vChoose(fmt.Sprintf("stream%d_recv%d", s.id, s.recvs), 4) {
	case 0:
		*(m.(*string)) = fmt.Sprintf("msg-from-stream%d-#%d", s.id, s.recvs)
		return nil
	case 1:
		return io.EOF
	case 2:
		return vErrBroken
	}
	return context.Canceled
}

func (w *vWorldRPC) streamer(ctx context.Context, desc *grpc.StreamDesc, cc *grpc.ClientConn, method string, opts ...grpc.CallOption) (grpc.ClientStream, error) {
	w.opened++
	if w.opened > 1 && w.cancelledAt == 0 && w.cancel != nil && vBool(fmt.Sprintf("caller_cancels_during_open%d", w.opened)) {
		w.cancel() // the caller gives up while the client is busy reopening
		w.cancelledAt = w.opened
	}
	if w.opened > 1 && vBool(fmt.Sprintf("open%d_fails", w.opened)) {
		return nil, vErrBroken
	}
	s := &vStream{w: w, id: len(w.streams)}
	w.streams = append(w.streams, s)
	return s, nil
}

// VerifStreamRetry. arg: max=<retry budget>,recv=<RecvMsg calls by the caller>,listed=<0|1>
func VerifStreamRetry(arg string) {
	max := vParam(arg, "max", 1)
	nrecv := vParam(arg, "recv", 2)
	listed := vParam(arg, "listed", 1) == 1
	method := "/pb.CoreRPC/ListPods"
	if listed {
		method = "/pb.CoreRPC/WorkloadStatusStream"
	}
	w := &vWorldRPC{}
	ctx, cancel := context.WithCancel(context.Background())
	defer cancel()
	if vParam(arg, "cancel", 0) == 1 {
		w.cancel = cancel
	}
	icpt := NewStreamRetry(RetryOptions{Max: max})
	stream, err := icpt(ctx, &grpc.StreamDesc{}, nil, method, w.streamer)
	vAssert("C36/stream-opens", err == nil && stream != nil)
	if err != nil {
		return
	}
	if !listed {
		// calls that are not watch streams are never retried: the raw stream comes back
		vAssert("C36/unlisted-method-gets-the-raw-stream", stream == grpc.ClientStream(w.streams[0]))
		var m string
		_ = stream.RecvMsg(&m)
		vAssert("C36/unlisted-method-never-reopens", w.opened == 1)
		return
	}
	request := "the-original-request"
	if stream.SendMsg(request) != nil {
		return
	}
	for r := 0; r < nrecv; r++ {
		openedBefore := w.opened
		current := w.streams[len(w.streams)-1]
		recvsBefore := current.recvs
		var m string
		rerr := stream.RecvMsg(&m)
		reopened := w.opened - openedBefore
		if w.cancelledAt > 0 {
			vCover("cancelled-while-reopening", true)
			// once the caller has cancelled, the stream is not reopened again
			vAssert("C36/no-reopen-after-the-caller-cancelled", w.opened == w.cancelledAt)
			return
		}
		// the retry budget: at most Max retries after the first reopen attempt
		vAssert("C36/reopen-attempts-within-budget", reopened <= max+1)
		newest := w.streams[len(w.streams)-1]
		if rerr == nil {
			vCover("message-delivered", true)
			if reopened == 0 {
				vAssert("C36/message-comes-from-the-current-stream", m == fmt.Sprintf("msg-from-stream%d-#%d", current.id, recvsBefore+1))
			} else {
				vCover("delivered-after-reopen", true)
				// transparently reopened: the original request was re-sent on the new
				// stream and the message comes from it
				vAssert("C36/request-resent-on-new-stream", len(newest.sent) >= 1 && newest.sent[0] == any(request))
				vAssert("C36/message-comes-from-the-new-stream", m == fmt.Sprintf("msg-from-stream%d-#%d", newest.id, newest.recvs))
			}
			continue
		}
		if errors.Is(rerr, context.Canceled) && reopened == 0 {
			vCover("cancelled", true)
			// a stream the caller cancelled is never retried
			vAssert("C36/cancelled-stream-not-retried", w.opened == openedBefore)
			return
		}
		// a break that could not be repaired: the whole budget was used
		vCover("budget-exhausted", true)
		vAssert("C36/gives-up-only-after-the-budget", reopened >= max)
		return
	}
}

func init() {
	vRegisterP("VerifStreamRetry", VerifStreamRetry)
}
