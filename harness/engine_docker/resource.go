package docker

// C31: engine settings faithfully enforce allocated resources.

import (
	"context"
	"fmt"
	"sort"
	"strings"

	dockertypes "github.com/docker/docker/api/types"
	dockercontainer "github.com/docker/docker/api/types/container"
	dockerapi "github.com/docker/docker/client"

	corecluster "github.com/projecteru2/core/cluster"
	resourcetypes "github.com/projecteru2/core/resource/types"
)

var vCoreIDs = []string{"0", "1", "2", "3"}

// vCPU: a CPU amount on the 1/4096-core grid (exact in binary floating point;
// fine enough for 1024*frac to need rounding), with the integer it was built from.
const vDen = 4096

func vCPU(name string, maxCores int) (float64, int) {
	m := vInt(name, 0, maxCores*vDen)
	return float64(m) / vDen, m
}

// vCheckBound: pinned to exactly the map's cores (and NUMA node), unrestricted
// quota, shares proportional to the fractional core.
func vCheckBound(r dockercontainer.Resources, chosen []bool, n int, numa string, m int) {
	got := map[string]bool{}
	if r.CpusetCpus != "" {
		for _, id := range strings.Split(r.CpusetCpus, ",") {
			vAssert("C31/cpuset-has-no-repeats", !got[id])
			got[id] = true
		}
	}
	for i := 0; i < n; i++ {
		vAssert("C31/cpuset-is-exactly-the-allocated-cores", got[vCoreIDs[i]] == chosen[i])
	}
	ids := []string{}
	for id := range got {
		ids = append(ids, id)
	}
	sort.Strings(ids)
	vObserve("cpuset", strings.Join(ids, ","))
	vAssert("C31/cpuset-mems-is-numa-node", r.CpusetMems == numa)
	vAssert("C31/bound-quota-unrestricted", r.CPUQuota == -1)
	frac := m % vDen
	// shares proportional to the fractional core: round(1024*frac/4096), half up
	wantShares := vIte(frac > 0, (frac+2)/4, 1024)
	vAssert("C31/shares-proportional-to-fraction", r.CPUShares == int64(wantShares))
}

// VerifResourceSetting: makeResourceSetting for bound / unbound / remapped params.
// arg: cores=<cores in the cpu map 0..3>,remap=<0|1>
func VerifResourceSetting(arg string) {
	n := vParam(arg, "cores", 2)
	remap := vParam(arg, "remap", 0) == 1
	cpu, m := vCPU("cpu_4096ths", 8)
	special := vChoose("cpu_special", 3) // 0: the grid value, 1: unlimited (-1), 2: zero
	if special == 1 {
		cpu, m = -1, -vDen
	} else if special == 2 {
		cpu, m = 0, 0
	}
	memory := vInt64("memory", 0, 1<<50)
	cpuMap := map[string]int64{}
	chosen := make([]bool, 4)
	for i := 0; i < n; i++ {
		if vBool("in_map_" + vCoreIDs[i]) {
			chosen[i] = true
			cpuMap[vCoreIDs[i]] = int64(vInt("pieces_"+vCoreIDs[i], 1, 100))
		}
	}
	numa := []string{"", "0", "1"}[vChoose("numa", 3)]

	r := makeResourceSetting(cpu, memory, cpuMap, numa, nil, remap)

	vAssert("C31/memory-capped-at-limit", r.Memory == memory)
	vAssert("C31/memory-swap-capped-at-limit", r.MemorySwap == memory)
	vAssert("C31/period-is-base", r.CPUPeriod == int64(corecluster.CPUPeriodBase))
	bound := len(cpuMap) > 0
	vCover("bound", bound && !remap)
	vCover("unbound", !bound)
	vCover("remapped", bound && remap)
	switch {
	case bound && !remap:
		if special == 0 {
			vCheckBound(r, chosen, n, numa, m)
		} else {
			vAssert("C31/bound-quota-unrestricted", r.CPUQuota == -1)
		}
	case bound && remap:
		vAssert("C31/remap-shares-default", r.CPUShares == 1024)
		got := map[string]bool{}
		for _, id := range strings.Split(r.CpusetCpus, ",") {
			got[id] = true
		}
		for i := 0; i < n; i++ {
			vAssert("C31/remap-cpuset-is-the-given-cores", got[vCoreIDs[i]] == chosen[i])
		}
		fallthrough
	default:
		// unbound (or remapped): quota equals the CPU limit
		switch special {
		case 1:
			vAssert("C31/unlimited-quota", r.CPUQuota == -1)
		case 2:
			vAssert("C31/zero-quota-means-none", r.CPUQuota == 0)
		default:
			// quota = cpu * period, exactly (the grid value times 100000 is an integer multiple of 1/64)
			q := float64(r.CPUQuota)
			want := cpu * float64(corecluster.CPUPeriodBase)
			vAssert("C31/quota-equals-cpu-limit", vAnd(q <= want, want < q+1))
		}
		if !bound {
			vAssert("C31/unbound-not-pinned", r.CpusetCpus == "")
		}
	}
}

// vClient models the two docker API calls of the update path.
type vClient struct {
	dockerapi.APIClient
	ncpu    int
	updated *dockercontainer.UpdateConfig
}

func (c *vClient) Info(context.Context) (dockertypes.Info, error) {
	return dockertypes.Info{NCPU: c.ncpu}, nil
}

func (c *vClient) ContainerUpdate(_ context.Context, _ string, cfg dockercontainer.UpdateConfig) (dockercontainer.ContainerUpdateOKBody, error) {
	c.updated = &cfg
	return dockercontainer.ContainerUpdateOKBody{}, nil
}

// VerifUpdateResource: the same guarantees when resources are updated on a running workload.
// arg: cores=
func VerifUpdateResource(arg string) {
	n := vParam(arg, "cores", 2)
	cl := &vClient{ncpu: 3}
	e := &Engine{client: cl}
	e.config.Scheduler.ShareBase = 100
	cpu, m := vCPU("cpu_4096ths", 8)
	memory := vInt64("memory", 0, 1<<50)
	vAssume(vOr(memory == 0, memory >= int64(minMemory)))
	cpuMap := map[string]int64{}
	chosen := make([]bool, 4)
	for i := 0; i < n; i++ {
		if vBool("in_map_" + vCoreIDs[i]) {
			chosen[i] = true
			cpuMap[vCoreIDs[i]] = int64(vInt("pieces_"+vCoreIDs[i], 1, 100))
		}
	}
	numa := []string{"", "0"}[vChoose("numa", 2)]
	// a remapped parameter set: an UNBOUND workload whose shared cores are handed over as a cpu map
	remap := vBool("remap")
	params := resourcetypes.Resources{"cpumem": resourcetypes.RawParams{
		"cpu": cpu, "cpu_map": cpuMap, "memory": memory, "numa_node": numa, "remap": remap,
	}}
	err := e.VirtualizationUpdateResource(context.Background(), "id", params)
	vAssert("C31/update-succeeds", err == nil)
	if err != nil || cl.updated == nil {
		vAssert("C31/update-applied", false)
		return
	}
	r := cl.updated.Resources
	vObserve("quota", fmt.Sprint(r.CPUQuota))
	if vConcrete(vIte(memory == 0, 1, 0)) == 1 {
		vAssert("C31/update-zero-memory-means-unlimited", r.Memory == maxMemory)
	} else {
		vAssert("C31/memory-capped-at-limit", vAnd(r.Memory == memory, r.MemorySwap == memory))
	}
	zeroQuota := vConcrete(vIte(m == 0, 1, 0)) == 1
	if remap && !zeroQuota && len(cpuMap) > 0 {
		// remapped: the workload keeps its own quota, default shares, and runs on the given cores
		vCover("update-remapped", true)
		q := float64(r.CPUQuota)
		want := cpu * float64(corecluster.CPUPeriodBase)
		vAssert("C31/update-remap-keeps-the-quota", vAnd(q <= want, want < q+1))
		vAssert("C31/update-remap-shares-default", r.CPUShares == 1024)
		got := map[string]bool{}
		for _, id := range strings.Split(r.CpusetCpus, ",") {
			got[id] = true
		}
		for i := 0; i < n; i++ {
			vAssert("C31/update-remap-cpuset-is-the-given-cores", got[vCoreIDs[i]] == chosen[i])
		}
		return
	}
	if zeroQuota || len(cpuMap) == 0 {
		// zero quota or no cpu map: not pinned, i.e. all cores
		got := map[string]bool{}
		for _, id := range strings.Split(r.CpusetCpus, ",") {
			got[id] = true
		}
		for i := 0; i < 3; i++ {
			vAssert("C31/update-unbound-uses-all-cores", got[vCoreIDs[i]])
		}
		if zeroQuota {
			vAssert("C31/update-zero-quota-is-unrestricted", r.CPUQuota == -1)
			vAssert("C31/update-zero-quota-clears-numa", r.CpusetMems == "")
		} else {
			// an unbound workload keeps a CPU quota equal to its CPU limit
			q := float64(r.CPUQuota)
			want := cpu * float64(corecluster.CPUPeriodBase)
			vAssert("C31/update-unbound-quota-equals-cpu-limit", vAnd(q <= want, want < q+1))
		}
		vCover("update-unbound", true)
		return
	}
	vCover("update-bound", true)
	vCheckBound(r, chosen, n, numa, m)
}

func init() {
	vRegisterP("VerifResourceSetting", VerifResourceSetting)
	vRegisterP("VerifUpdateResource", VerifUpdateResource)
}
