package strategy

// Harnesses for C01 (plans respect count and capacity), C02 (refused only when
// no plan exists) and C03 (balancing rules).  Entry: strategy.Deploy (exported).

import (
	"context"
	"errors"
	"math"

	"github.com/projecteru2/core/types"
)

var vNames = []string{"n0", "n1", "n2", "n3", "n4"}

const vMaxCount = 1 << 31

type vIn struct {
	cap, cnt  []int
	use, rate []float64
	infos     []Info
	total     int
}

// vInfos: n candidate nodes with distinct names, capacity 0..MaxInt (the
// "unlimited" sentinel included; a candidate without remaining capacity must
// simply get nothing), existing count, usage and rate on the grid.
func vInfos(n int) *vIn {
	in := &vIn{}
	total := 0
	for i := 0; i < n; i++ {
		c := vInt("cap_"+vNames[i], 0, math.MaxInt)
		k := vInt("count_"+vNames[i], 0, vMaxCount)
		u := vGrid("usage_"+vNames[i], 10, 0, 1<<20)
		r := vGrid("rate_"+vNames[i], 10, 0, 1<<20)
		in.cap = append(in.cap, c)
		in.cnt = append(in.cnt, k)
		in.use = append(in.use, u)
		in.rate = append(in.rate, r)
		in.infos = append(in.infos, Info{Nodename: vNames[i], Capacity: c, Count: k, Usage: u, Rate: r})
		// saturating sum: the documented meaning of `total`
		s := total + c
		total = vIte(s < total, math.MaxInt, s)
	}
	in.total = total
	return in
}

// planOK: the plan names only candidate nodes.
func vPlanKeys(plan map[string]int, n int) bool {
	for k := range plan {
		found := false
		for i := 0; i < n; i++ {
			if k == vNames[i] {
				found = true
			}
		}
		if !found {
			return false
		}
	}
	return true
}

// ---------------- AUTO ----------------

func vAuto(n, maxNeed int) {
	in := vInfos(n)
	// the placement loop runs `need` times: need <= maxNeed, or any need that
	// exceeds the offered total (refused before the loop)
	need := vInt("need", 1, math.MaxInt)
	vAssume(vOr(need <= maxNeed, in.total < need))
	limit := vInt("limit", 0, vMaxCount)
	plan, err := Deploy(context.Background(), Auto, need, limit, in.infos, in.total)

	// reference feasibility: sum of min(cap, room under the limit), saturating
	room := 0
	for i := 0; i < n; i++ {
		r := vIte(limit > 0, vMin(in.cap[i], vMax(limit-in.cnt[i], 0)), in.cap[i])
		s := room + r
		room = vIte(s < room, math.MaxInt, s)
	}
	feasible := room >= need
	vCover("auto-plan", err == nil)
	vCover("auto-refused", err != nil)
	vAssert("C02/auto-plan-iff-feasible", (err == nil) == feasible)
	if err != nil {
		vAssert("C02/auto-refusal-plans-nothing", len(plan) == 0)
		return
	}
	vAssert("C01/auto-only-candidates", vPlanKeys(plan, n))
	sum := 0
	for i := 0; i < n; i++ {
		d := plan[vNames[i]]
		vObserve("d_"+vNames[i], d)
		sum += d
		vAssert("C01/auto-within-capacity", vAnd(d >= 0, d <= in.cap[i]))
		vAssert("C01/auto-node-limit", vImplies(vAnd(limit > 0, d > 0), in.cnt[i]+d <= limit))
		for j := 0; j < n; j++ {
			dj := plan[vNames[j]]
			spare := vAnd(in.cap[j]-dj > 0, vOr(limit == 0, in.cnt[j]+dj < limit))
			vAssert("C03/auto-even", vImplies(vAnd(d > 0, spare), in.cnt[i]+d <= in.cnt[j]+dj+1))
		}
	}
	vAssert("C01/auto-sum", sum == need)
}

func VerifAuto2()   { vAuto(2, 3) }
func VerifAuto3()   { vAuto(3, 3) }
func VerifAuto3n5() { vAuto(3, 5) }
func VerifAuto4()   { vAuto(4, 4) }

// ---------------- GLOBAL ----------------

func vGlobal(n, maxNeed int) {
	in := vInfos(n)
	need := vInt("need", 1, math.MaxInt)
	vAssume(vOr(need <= maxNeed, in.total < need))
	limit := vInt("limit", 0, vMaxCount)
	plan, err := Deploy(context.Background(), Global, need, limit, in.infos, in.total)
	vCover("global-plan", err == nil)
	vCover("global-refused", err != nil)
	vAssert("C02/global-plan-iff-feasible", (err == nil) == (in.total >= need))
	if err != nil {
		vAssert("C02/global-refusal-plans-nothing", len(plan) == 0)
		return
	}
	vAssert("C01/global-only-candidates", vPlanKeys(plan, n))
	sum := 0
	fin := make([]float64, n)
	ds := make([]int, n)
	for i := 0; i < n; i++ {
		d := plan[vNames[i]]
		vObserve("d_"+vNames[i], d)
		sum += d
		vAssert("C01/global-within-capacity", vAnd(d >= 0, d <= in.cap[i]))
		// final usage by the same repeated addition the strategy performs
		dc := vConcrete(d)
		ds[i] = dc
		u := in.use[i]
		for k := 0; k < dc; k++ {
			u += in.rate[i]
		}
		fin[i] = u
	}
	vAssert("C01/global-sum", sum == need)
	for i := 0; i < n; i++ {
		for j := 0; j < n; j++ {
			vAssert("C03/global-even", vImplies(vAnd(ds[i] > 0, in.cap[j]-ds[j] > 0), fin[i] <= fin[j]+in.rate[j]))
		}
	}
}

func VerifGlobal2()   { vGlobal(2, 3) }
func VerifGlobal3()   { vGlobal(3, 3) }
func VerifGlobal3n5() { vGlobal(3, 5) }
func VerifGlobal4()   { vGlobal(4, 4) }

// ---------------- DRAINED ----------------

func vDrained(n int) {
	in := vInfos(n)
	need := vInt("need", 1, math.MaxInt)
	limit := vInt("limit", 0, vMaxCount)
	plan, err := Deploy(context.Background(), Drained, need, limit, in.infos, in.total)
	vCover("drained-plan", err == nil)
	vCover("drained-refused", err != nil)
	vAssert("C02/drained-plan-iff-feasible", (err == nil) == (in.total >= need))
	if err != nil {
		vAssert("C02/drained-refusal-plans-nothing", len(plan) == 0)
		return
	}
	vAssert("C01/drained-only-candidates", vPlanKeys(plan, n))
	sum := 0
	for i := 0; i < n; i++ {
		d := plan[vNames[i]]
		vObserve("d_"+vNames[i], d)
		// the sum cannot wrap: each d is checked against its capacity and
		// need <= MaxInt; accumulate saturating to keep the reference exact
		s := sum + d
		sum = vIte(s < sum, math.MaxInt, s)
		vAssert("C01/drained-within-capacity", vAnd(d >= 0, d <= in.cap[i]))
		for j := 0; j < n; j++ {
			dj := plan[vNames[j]]
			vAssert("C03/drained-smaller-first", vImplies(vAnd(in.cap[i] < in.cap[j], dj > 0), d == in.cap[i]))
		}
	}
	vAssert("C01/drained-sum", sum == need)
}

func VerifDrained2() { vDrained(2) }
func VerifDrained3() { vDrained(3) }
func VerifDrained4() { vDrained(4) }
func VerifDrained5() { vDrained(5) }

// ---------------- EACH ----------------

func vEach(n int) {
	in := vInfos(n)
	need := vInt("need", 1, math.MaxInt)
	limit := vInt("limit", 0, vMaxCount)
	plan, err := Deploy(context.Background(), Each, need, limit, in.infos, in.total)
	lim := vIte(limit == 0, n, limit)
	enough := 0
	for i := 0; i < n; i++ {
		enough += vIte(in.cap[i] >= need, 1, 0)
	}
	vCover("each-plan", err == nil)
	vCover("each-refused", err != nil)
	vAssert("C02/each-plan-iff-feasible", (err == nil) == (enough >= lim))
	if err != nil {
		vAssert("C02/each-refusal-plans-nothing", len(plan) == 0)
		return
	}
	vAssert("C01/each-only-candidates", vPlanKeys(plan, n))
	chosen := 0
	for i := 0; i < n; i++ {
		d := plan[vNames[i]]
		vObserve("d_"+vNames[i], d)
		vAssert("C01/each-exact-per-node", vOr(d == 0, d == need))
		vAssert("C01/each-within-capacity", d <= in.cap[i])
		chosen += vIte(d > 0, 1, 0)
		for j := 0; j < n; j++ {
			dj := plan[vNames[j]]
			vAssert("C03/each-most-capacity", vImplies(vAnd(d > 0, dj == 0), in.cap[i] >= in.cap[j]))
		}
	}
	vAssert("C01/each-node-count", chosen == lim)
}

func VerifEach2() { vEach(2) }
func VerifEach3() { vEach(3) }
func VerifEach4() { vEach(4) }
func VerifEach5() { vEach(5) }

// ---------------- FILL ----------------

func vFill(n int) {
	in := vInfos(n)
	// need is the per-node target level; levels beyond 2^32 instances are
	// outside the claim (the strategy's running total would wrap)
	need := vInt("need", 1, 1<<32)
	limit := vInt("limit", 0, vMaxCount)
	plan, err := Deploy(context.Background(), Fill, need, limit, in.infos, in.total)
	lim := vIte(limit == 0, n, limit)
	eligible := make([]bool, n)
	enough := 0
	for i := 0; i < n; i++ {
		// Count+Capacity >= need over the integers (no wrap): Capacity >= need-Count
		eligible[i] = in.cap[i] >= need-in.cnt[i]
		enough += vIte(eligible[i], 1, 0)
	}
	// "already filled" is neither a plan nor a refusal
	filled := errors.Is(err, types.ErrAlreadyFilled)
	vCover("fill-plan", err == nil)
	vCover("fill-refused", vAnd(err != nil, !filled))
	if filled {
		vAssert("C02/fill-already-filled-is-feasible", enough >= lim)
		for i := 0; i < n; i++ {
			vAssert("C01/fill-already-filled-adds-nothing", plan[vNames[i]] == 0)
		}
		return
	}
	vAssert("C02/fill-plan-iff-feasible", (err == nil) == (enough >= lim))
	if err != nil {
		vAssert("C02/fill-refusal-plans-nothing", len(plan) == 0)
		return
	}
	vAssert("C01/fill-only-candidates", vPlanKeys(plan, n))
	vAssert("C01/fill-node-count", len(plan) == lim)
	for i := 0; i < n; i++ {
		d, sel := plan[vNames[i]]
		vObserve("d_"+vNames[i], d)
		if !sel {
			continue
		}
		vAssert("C01/fill-tops-up", d == vMax(need-in.cnt[i], 0))
		vAssert("C01/fill-within-capacity", vAnd(d >= 0, d <= in.cap[i]))
		for j := 0; j < n; j++ {
			if _, selj := plan[vNames[j]]; selj {
				continue
			}
			// a chosen node already runs at least as many instances as any
			// eligible node that was not chosen (capacity breaks ties)
			vAssert("C03/fill-prefers-more-instances", vImplies(eligible[j],
				vOr(in.cnt[i] > in.cnt[j], vAnd(in.cnt[i] == in.cnt[j], in.cap[i] >= in.cap[j]))))
		}
	}
}

func VerifFill2() { vFill(2) }
func VerifFill3() { vFill(3) }
func VerifFill4() { vFill(4) }
func VerifFill5() { vFill(5) }

func init() {
	for name, f := range map[string]func(){
		"VerifAuto2": VerifAuto2, "VerifAuto3": VerifAuto3, "VerifAuto3n5": VerifAuto3n5, "VerifAuto4": VerifAuto4,
		"VerifGlobal2": VerifGlobal2, "VerifGlobal3": VerifGlobal3, "VerifGlobal3n5": VerifGlobal3n5, "VerifGlobal4": VerifGlobal4,
		"VerifDrained2": VerifDrained2, "VerifDrained3": VerifDrained3, "VerifDrained4": VerifDrained4, "VerifDrained5": VerifDrained5,
		"VerifEach2": VerifEach2, "VerifEach3": VerifEach3, "VerifEach4": VerifEach4, "VerifEach5": VerifEach5,
		"VerifFill2": VerifFill2, "VerifFill3": VerifFill3, "VerifFill4": VerifFill4, "VerifFill5": VerifFill5,
	} {
		vRegister(name, f)
	}
}
