package selfmon

// C28 (watcher half): when a node's heartbeat status disappears while the
// node-status watcher is active - or has disappeared before the watcher became
// active - the watcher asks the cluster to mark the node's workloads down
// (SetNode with WorkloadsDown).  The real withActiveLock / monitor /
// initNodeStatus / dealNodeStatusMessage run under gosym's scheduler with exact
// channel semantics; the cluster and the store are models; heartbeats and
// lapses form a SYMBOLIC sequence of events.

import (
	"context"
	"errors"
	"time"

	"github.com/projecteru2/core/cluster"
	"github.com/projecteru2/core/store"
	"github.com/projecteru2/core/types"
)

//verif:zerofn time.Sleep

type vCluster struct {
	cluster.Cluster
	nodes     []string
	alive     map[string]bool // a heartbeat status exists for the node
	stream    chan *types.NodeStatus
	downed    map[string]int // SetNode(WorkloadsDown) calls per node
	slow      bool           // SetNode calls outlast the global timeout
	streamCap int
	failSet   map[string]bool
}

func (c *vCluster) ListPodNodes(context.Context, *types.ListNodesOptions) (<-chan *types.Node, error) {
	ch := make(chan *types.Node, len(c.nodes))
	for _, n := range c.nodes {
		ch <- &types.Node{NodeMeta: types.NodeMeta{Name: n, Podname: "p1"}}
	}
	close(ch)
	return ch, nil
}

func (c *vCluster) GetNodeStatus(_ context.Context, name string) (*types.NodeStatus, error) {
	if !c.alive[name] {
		return nil, errors.New("node status not found")
	}
	return &types.NodeStatus{Nodename: name, Podname: "p1", Alive: true}, nil
}

// NodeStatusStream: every activation term gets its own stream.
func (c *vCluster) NodeStatusStream(context.Context) chan *types.NodeStatus {
	c.stream = make(chan *types.NodeStatus, c.streamCap)
	return c.stream
}

func (c *vCluster) SetNode(_ context.Context, opts *types.SetNodeOptions) (*types.Node, error) {
	if opts.WorkloadsDown {
		c.downed[opts.Nodename]++
	}
	if c.slow {
		// this call takes longer than the configured global timeout: every deadline armed so far elapses
		if vIsSymbolic() {
			vExpireTimeouts()
		} else {
			time.Sleep(100 * time.Millisecond) // natively: really outlast the 30 ms timeout below
		}
	}
	return &types.Node{NodeMeta: types.NodeMeta{Name: opts.Nodename}}, nil
}

type vStore struct {
	store.Store
	expiry                   chan struct{}
	registered, unregistered int
}

func (s *vStore) StartEphemeral(context.Context, string, time.Duration) (<-chan struct{}, func(), error) {
	if vNativeRun {
		time.Sleep(5 * time.Millisecond) // natively: a store round trip takes time, goroutines spawned before it get to run (as under gosym's schedules)
	}
	s.expiry = make(chan struct{}) // every registration has its own expiry channel
	s.registered++
	return s.expiry, func() { s.unregistered++ }, nil
}

// VerifSelfmon. arg: nodes=<n>,steps=<events>
func VerifSelfmon(arg string) {
	nNodes := vParam(arg, "nodes", 2)
	steps := vParam(arg, "steps", 3)
	vNoSample() // natively goroutine timing decides when the calls are observed
	names := []string{"a", "b", "c"}[:nNodes]
	cl := &vCluster{nodes: names, alive: map[string]bool{}, streamCap: steps + 1, downed: map[string]int{}}
	for _, n := range names {
		cl.alive[n] = true
	}
	cl.slow = vBool("set_node_outlasts_the_global_timeout")
	st := &vStore{}
	w := &NodeStatusWatcher{ID: 1, cluster: cl, store: st}
	w.config.GlobalTimeout = time.Minute
	if !vIsSymbolic() {
		w.config.GlobalTimeout = 30 * time.Millisecond
	}
	ctx, cancel := context.WithCancel(context.Background())
	defer cancel()

	started := false
	lapsedAfterStart := map[string]bool{}
	lapsedBeforeStart := map[string]bool{}
	everLapsed := map[string]bool{}
	// the watcher process: one activation term after the other, like run() (without its sleeps);
	// a term starts when the harness says so and ends when its status stream closes
	goTerm := make(chan struct{}, steps+1)
	go func() {
		for range goTerm {
			w.withActiveLock(ctx, func(ctx context.Context) { _ = w.monitor(ctx) })
		}
	}()
	terms := 0
	start := func() {
		started = true
		terms++
		goTerm <- struct{}{}
		vDrain() // the term is running (its stream exists) before the next event
	}
	if vBool("watcher_active_from_the_beginning") {
		start()
	}
	for step := 0; step < steps; step++ {
		ev := vChoose("event_"+string(rune('1'+step)), 5)
		node := names[0]
		if nNodes > 1 {
			node = names[vChoose("node_of_event_"+string(rune('1'+step)), nNodes)]
		}
		switch ev {
		case 0: // the node's heartbeat status disappears (expiry or deletion)
			if !cl.alive[node] {
				continue
			}
			cl.alive[node] = false
			everLapsed[node] = true
			if started {
				lapsedAfterStart[node] = true
				cl.stream <- &types.NodeStatus{Nodename: node, Podname: "p1", Alive: false}
			} else {
				lapsedBeforeStart[node] = true
			}
		case 1: // a heartbeat arrives
			if cl.alive[node] {
				continue
			}
			cl.alive[node] = true
			delete(lapsedBeforeStart, node)
			if started {
				cl.stream <- &types.NodeStatus{Nodename: node, Podname: "p1", Alive: true}
			}
		case 2: // the watcher becomes active
			if started {
				continue
			}
			start()
		case 3, 4: // the active term ends: the status stream closes (3), or the watcher loses the active key (4)
			if !started || terms >= 2 {
				continue
			}
			vDrain()
			if ev == 3 {
				close(cl.stream)
			} else {
				close(st.expiry)
				vCover("active-key-lost", true)
			}
			vDrain()
			// a watcher that is no longer active stops monitoring and gives the key back
			vAssert("C28/inactive-watcher-stops-and-unregisters", st.unregistered == st.registered)
			if ev != 3 {
				// C26: a registrant whose registration lapsed is notified - the watcher must
				// stop acting as the active one and give the registration back
				vAssert("C26/lapsed-active-watcher-is-notified-and-stops", st.unregistered == st.registered)
			}
			started = false
			vCover("term-ended", true)
			// lapses seen while active have been handled; what lapses from now on is found by the next scan
			for n := range lapsedAfterStart {
				vAssert("C28/lapse-while-active-marks-workloads-down", cl.downed[n] > 0)
				delete(lapsedAfterStart, n)
				if !cl.alive[n] {
					lapsedBeforeStart[n] = true
					cl.downed[n] = 0 // the next term must find it again
				}
			}
			for n := range lapsedBeforeStart {
				cl.downed[n] = 0
			}
		}
		vDrain()
	}
	if !started {
		return
	}
	vDrain()
	if !vIsSymbolic() {
		time.Sleep(600 * time.Millisecond)
	}
	for _, n := range names {
		if lapsedAfterStart[n] {
			vCover("lapse-while-active", true)
			vAssert("C28/lapse-while-active-marks-workloads-down", cl.downed[n] > 0)
		}
		if lapsedBeforeStart[n] {
			vCover("lapse-before-active", true)
			vAssert("C28/lapse-before-activation-marks-workloads-down", cl.downed[n] > 0)
		}
		if !everLapsed[n] {
			// a node whose heartbeat never lapsed is never marked down
			vAssert("C28/live-node-is-not-marked-down", cl.downed[n] == 0)
		}
	}
}

func init() { vRegisterP("VerifSelfmon", VerifSelfmon) }
