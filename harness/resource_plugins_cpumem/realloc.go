package cpumem

// VerifRealloc: one re-allocation of a live workload on an arbitrary node
// (C08: bookkeeping exact and reversible; C33: keep-bind without CPU change
// keeps the cores).
//
// The pre-state is U = R + w: R is arbitrary other usage, w the workload being
// re-allocated (its resources are part of the recorded usage, as every
// allocation history guarantees).
//
// arg: c=,numa=,sb=,ms=,mp=,ob=<origin bound 0|1>,or=<origin request 1/1000>,
//      mode=<0 keep-bind | 1 bind | 2 unbind>,d=<cpu delta 1/1000, may be negative>,grid=

import (
	"context"

	"github.com/projecteru2/core/resource/plugins/cpumem/types"
	plugintypes "github.com/projecteru2/core/resource/plugins/types"
)

// vOriginMaps enumerates (by symbolic choice) a valid CPU map for a bound
// workload of `pieces` pieces on cores with whole shares: full cores plus at
// most one fragment core.
func vOriginMap(n, sb, pieces int) types.CPUMap {
	m := types.CPUMap{}
	full := pieces / sb
	frag := pieces % sb
	usedCore := make([]bool, n)
	for f := 0; f < full; f++ {
		c := vChoose("origin_full"+vCores[f], n)
		vAssume(!usedCore[c])
		usedCore[c] = true
		m[vCores[c]] = sb
	}
	if frag > 0 {
		c := vChoose("origin_frag", n)
		vAssume(!usedCore[c])
		m[vCores[c]] = frag
	}
	return m
}

func VerifRealloc(arg string) {
	n := vParam(arg, "c", 2)
	numa := vParam(arg, "numa", 0) == 1
	sb := vParam(arg, "sb", 100)
	ms := vParam(arg, "ms", -1)
	mp := vParam(arg, "mp", sb)
	originBound := vParam(arg, "ob", 1) == 1
	originMilli := vParam(arg, "or", 1000)
	mode := vParam(arg, "mode", 0)
	delta := vParam(arg, "d", 0)
	grid := vParam(arg, "grid", 0) == 1
	ctx := context.Background()

	p, _ := vPlugin(sb, ms)
	nd := vMkNode("", n, numa, mp, true, grid) // nd.* is R, the usage of the other workloads
	if mp == sb {
		// whole-core shares (the C33 precondition): every core has capacity sb
		for i := 0; i < n; i++ {
			vAssume(nd.capP[i] == sb)
		}
	}

	// the workload being re-allocated
	origin := &types.WorkloadResource{
		CPURequest: float64(originMilli) / 1000, CPULimit: float64(originMilli) / 1000,
		CPUMap: types.CPUMap{}, NUMAMemory: types.NUMAMemory{},
	}
	origin.MemoryRequest = vInt64("origin_mem", 0, vMemMax)
	origin.MemoryLimit = origin.MemoryRequest
	if originBound {
		origin.CPUMap = vOriginMap(n, sb, originMilli*sb/1000)
		if numa {
			// bound on a NUMA node iff all its cores belong to one node (as the planner assigns)
			node := ""
			same := true
			for i := 0; i < n; i++ {
				if _, ok := origin.CPUMap[vCores[i]]; ok {
					if node == "" {
						node = nd.numaOf[i]
					} else if node != nd.numaOf[i] {
						same = false
					}
				}
			}
			if same && vBool("origin_on_numa_node") {
				origin.NUMANode = node
				origin.NUMAMemory[node] = origin.MemoryRequest
			}
		}
	}
	// U = R + w must itself be a valid state
	for i := 0; i < n; i++ {
		w := origin.CPUMap[vCores[i]]
		nd.info.Usage.CPUMap[vCores[i]] = nd.useP[i] + w
		vAssume(nd.useP[i]+w <= nd.capP[i])
	}
	nd.info.Usage.Memory = nd.memUse + origin.MemoryRequest
	vAssume(nd.memUse+origin.MemoryRequest <= nd.memCap)
	if origin.NUMANode != "" {
		nd.info.Usage.NUMAMemory[origin.NUMANode] = nd.nUse[origin.NUMANode] + origin.MemoryRequest
		vAssume(nd.nUse[origin.NUMANode]+origin.MemoryRequest <= nd.nCap[origin.NUMANode])
	}
	if grid {
		nd.info.Usage.CPU = nd.cpuUse + origin.CPURequest
	}
	vStoreNode(p, "node", nd)

	memDelta := vInt64("mem_delta", -vMemMax, vMemMax)
	vAssume(origin.MemoryRequest+memDelta >= 0)
	req := plugintypes.WorkloadResourceRequest{
		"cpu-request": float64(delta) / 1000, "cpu-limit": float64(delta) / 1000,
		"memory-request": memDelta, "memory-limit": memDelta,
	}
	switch mode {
	case 0:
		req["keep-cpu-bind"] = true
	case 1:
		req["cpu-bind"] = true
	case 2:
		req["cpu-bind"] = false
	}
	originRaw := plugintypes.WorkloadResource{}
	{
		// the stored workload resource, as the plugin itself encodes it
		if err := vEncode(origin, &originRaw); err != nil {
			vAssume(false)
		}
	}

	// recorded findings (known_findings.json): keep-bind may move a fractional
	// core, and on NUMA nodes the first plan may come from another NUMA node
	vKnown("F-C33-fragment-core-moves", originBound && (originMilli*sb/1000)%sb != 0)
	vKnown("F-C33-numa-node-changes", numa)

	if numa {
		vNoSample() // NUMA plan order follows Go's random map order natively
	}
	resp, err := p.CalculateRealloc(ctx, "node", originRaw, req)
	if vNativeRun && numa && mode == 0 && err == nil {
		// natively the NUMA plan order follows Go's random map iteration order:
		// look for an order that moves the workload (the call only reads state)
		for t := 0; t < 64; t++ {
			w := vParse(resp.WorkloadResource)
			moved := w.NUMANode != origin.NUMANode
			for i := 0; i < n; i++ {
				if w.CPUMap[vCores[i]] != origin.CPUMap[vCores[i]] {
					moved = true
				}
			}
			if moved {
				break
			}
			resp, err = p.CalculateRealloc(ctx, "node", originRaw, req)
		}
	}
	vCover("realloc-accepted", err == nil)
	vCover("realloc-refused", err != nil)
	if err != nil {
		return
	}
	newW := vParse(resp.WorkloadResource)

	// C33: keep-bind, no CPU change, whole-core shares => same cores, same NUMA node
	if mode == 0 && delta == 0 && originBound && mp == sb {
		same := len(newW.CPUMap) == len(origin.CPUMap)
		for i := 0; i < n; i++ {
			same = vAnd(same, newW.CPUMap[vCores[i]] == origin.CPUMap[vCores[i]])
		}
		vAssert("C33/keeps-cores", same)
		vAssert("C33/keeps-numa-node", newW.NUMANode == origin.NUMANode)
	}

	// dropping the binding clears every trace of it in the recorded resources
	if mode == 2 {
		vCover("realloc-unbound", true)
		vAssert("C08/unbind-clears-the-cpu-map", len(newW.CPUMap) == 0)
		vAssert("C08/unbind-clears-the-numa-node", newW.NUMANode == "" && len(newW.NUMAMemory) == 0)
	}

	// commit the delta as the resource manager does
	_, err = p.SetNodeResourceUsage(ctx, "node", nil, nil, []plugintypes.WorkloadResource{resp.DeltaResource}, true, true)
	vAssert("C08/realloc-commit-accepted", err == nil)
	if err != nil {
		return
	}
	after := vLoadNode(p, "node")
	// usage afterwards = R + new workload, in every component
	for i := 0; i < n; i++ {
		vAssert("C08/realloc-core-usage-exact", after.Usage.CPUMap[vCores[i]] == nd.useP[i]+newW.CPUMap[vCores[i]])
	}
	vAssert("C08/realloc-memory-usage-exact", after.Usage.Memory == nd.memUse+newW.MemoryRequest)
	vAssert("C08/realloc-memory-request-is-sum", newW.MemoryRequest == origin.MemoryRequest+memDelta)
	if numa {
		for _, id := range []string{"0", "1"} {
			vAssert("C08/realloc-numa-memory-usage-exact", after.Usage.NUMAMemory[id] == nd.nUse[id]+newW.NUMAMemory[id])
		}
		if newW.NUMANode != "" {
			vAssert("C08/realloc-numa-memory-recorded", newW.NUMAMemory[newW.NUMANode] == newW.MemoryRequest)
		}
	}
	if grid {
		vAssert("C08/realloc-cpu-usage-exact", after.Usage.CPU == nd.cpuUse+newW.CPURequest)
	}

	// rollback of the realloc restores U exactly
	_, err = p.SetNodeResourceUsage(ctx, "node", nil, nil, []plugintypes.WorkloadResource{resp.DeltaResource}, true, false)
	vAssert("C08/realloc-rollback-accepted", err == nil)
	back := vLoadNode(p, "node")
	for i := 0; i < n; i++ {
		vAssert("C08/realloc-rollback-restores-cores", back.Usage.CPUMap[vCores[i]] == nd.useP[i]+origin.CPUMap[vCores[i]])
	}
	vAssert("C08/realloc-rollback-restores-memory", back.Usage.Memory == nd.memUse+origin.MemoryRequest)
	if numa {
		for _, id := range []string{"0", "1"} {
			vAssert("C08/realloc-rollback-restores-numa-memory", back.Usage.NUMAMemory[id] == nd.nUse[id]+origin.NUMAMemory[id])
		}
	}
}

func init() {
	vRegisterP("VerifRealloc", VerifRealloc)
}
