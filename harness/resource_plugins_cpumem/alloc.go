package cpumem

// VerifAlloc: one allocation on an arbitrary valid node through the plugin API:
// deploy capacity, CalculateDeploy, commit by SetNodeResourceUsage, rollback.
//
// arg: c=<cores>,numa=<0|1>,b=<bind 0|1>,r=<request in 1/1000 cores>,lim=<limit in 1/1000 cores>,sb=,ms=,mp=,k=<max count>,grid=<0|1>

import (
	"context"
	"math"

	"github.com/projecteru2/core/resource/plugins/cpumem/types"
)

func VerifAlloc(arg string) {
	n := vParam(arg, "c", 2)
	numa := vParam(arg, "numa", 0) == 1
	bind := vParam(arg, "b", 1) == 1
	r := vParam(arg, "r", 1000)
	lim := vParam(arg, "lim", 0) // cpu limit in 1/1000 cores (0: same as the request)
	sb := vParam(arg, "sb", 100)
	ms := vParam(arg, "ms", -1)
	mp := vParam(arg, "mp", 2*sb)
	maxCount := vParam(arg, "k", 3)
	grid := vParam(arg, "grid", 0) == 1
	ctx := context.Background()

	p, _ := vPlugin(sb, ms)
	nd := vMkNode("", n, numa, mp, true, grid)
	vStoreNode(p, "node", nd)

	memReq := vInt64("mem_request", 0, vMemMax)
	memLimit := memReq
	if vParam(arg, "ml", 0) == 1 {
		// a memory limit of its own (the plugin reserves the request, the engine enforces the limit)
		memLimit = vInt64("mem_limit", 0, vMemMax)
	}
	count := vInt("count", 1, maxCount)
	raw := vRequest(bind, r, memReq, memLimit)
	if lim > 0 {
		raw["cpu-limit"] = float64(lim) / 1000
		if bind && lim > r {
			r = lim // a bound request is raised to its limit (documented normalisation)
		}
	}
	req := &types.WorkloadResourceRequest{}
	req.Parse(raw)
	if req.Validate() != nil {
		vAssume(false)
	}
	memReq = req.MemRequest // the request as the plugin normalises it (zero request with a limit => the limit)

	// reported capacity on the pre-state
	capInfo := p.doGetNodeDeployCapacity(vLoadNode(p, "node"), req)
	c := capInfo.Capacity
	vObserve("capacity", c)
	if !bind && r <= 1000*n {
		vAssert("C07/zero-memory-means-unlimited", vImplies(memReq == 0, c == math.MaxInt))
	}

	if numa && bind {
		vNoSample() // NUMA plan order follows Go's random map order natively
	}
	resp, err := p.CalculateDeploy(ctx, "node", count, raw)
	vCover("alloc-accepted", err == nil)
	vCover("alloc-refused", err != nil)
	// capacity is exactly the largest accepted count
	vAssert("C07/accepted-iff-within-capacity", (err == nil) == (count <= c))
	if err != nil {
		return
	}
	kc := vConcrete(count)
	vAssert("C04/one-resource-per-instance", len(resp.WorkloadsResource) == kc)

	wantPieces := (r*sb + 500) / 1000
	used := make([]int, n)
	perNode := map[string]int{}
	var ws []*types.WorkloadResource
	for _, rawW := range resp.WorkloadsResource {
		w := vParse(rawW)
		ws = append(ws, w)
		tot := 0
		for id, pieces := range w.CPUMap {
			for i := 0; i < n; i++ {
				if vCores[i] == id {
					used[i] += pieces
					if w.NUMANode != "" {
						vAssert("C04/numa-instance-uses-only-its-cores", nd.numaOf[i] == w.NUMANode)
					}
				}
			}
			vAssert("C04/pieces-positive", pieces > 0)
			tot += pieces
		}
		if bind {
			vAssert("C05/pieces-total-is-request", tot == wantPieces)
			// recorded CPU amount agrees with the pieces given (to the nearest piece)
			vAssert("C05/recorded-cpu-matches-pieces", int(math.Round(w.CPURequest*float64(sb))) == tot)
		} else {
			vAssert("C04/unbound-gets-no-cores", len(w.CPUMap) == 0)
		}
		vAssert("C04/memory-request-recorded", w.MemoryRequest == memReq)
		perNode[w.NUMANode]++
		if w.NUMANode != "" {
			vAssert("C04,C08/numa-memory-recorded-is-the-request", w.NUMAMemory[w.NUMANode] == memReq)
		}
	}
	for i := 0; i < n; i++ {
		vAssert("C04/core-not-overcommitted", used[i] <= nd.capP[i]-nd.useP[i])
	}
	vAssert("C04/memory-not-overcommitted", int64(kc)*memReq <= nd.memCap-nd.memUse)
	if numa {
		for _, id := range []string{"0", "1"} {
			vAssert("C04/numa-memory-not-overcommitted", int64(perNode[id])*memReq <= nd.nCap[id]-nd.nUse[id])
		}
	}

	// commit, exactly as the resource manager does (delta, incr)
	_, err = p.SetNodeResourceUsage(ctx, "node", nil, nil, resp.WorkloadsResource, true, true)
	vAssert("C04/commit-accepted", err == nil)
	if err != nil {
		return
	}
	after := vLoadNode(p, "node")
	vAssert("C04/committed-state-valid", after.DeepCopy().Validate() == nil)
	for i := 0; i < n; i++ {
		vAssert("C04/committed-core-usage-within-capacity", after.Usage.CPUMap[vCores[i]] <= after.Capacity.CPUMap[vCores[i]])
		vAssert("C08/alloc-core-usage-exact", after.Usage.CPUMap[vCores[i]] == nd.useP[i]+used[i])
	}
	vAssert("C04/committed-memory-within-capacity", after.Usage.Memory <= after.Capacity.Memory)
	vAssert("C08/alloc-memory-usage-exact", after.Usage.Memory == nd.memUse+int64(kc)*memReq)
	if numa {
		for _, id := range []string{"0", "1"} {
			vAssert("C04/committed-numa-memory-within-capacity", after.Usage.NUMAMemory[id] <= after.Capacity.NUMAMemory[id])
			vAssert("C08/alloc-numa-memory-usage-exact", after.Usage.NUMAMemory[id] == nd.nUse[id]+int64(perNode[id])*memReq)
		}
	}
	if grid {
		cpu := nd.cpuUse
		for k := 0; k < kc; k++ {
			cpu += float64(r) / 1000
		}
		vAssert("C08/alloc-cpu-usage-exact", after.Usage.CPU == cpu)
	}

	// memory-only requests: allocating k instances lowers the capacity by exactly k
	if !bind {
		c2 := p.doGetNodeDeployCapacity(after, req).Capacity
		vAssert("C07/capacity-drops-by-k", vImplies(memReq > 0, c2 == c-kc))
	}

	// rollback restores the usage exactly
	_, err = p.SetNodeResourceUsage(ctx, "node", nil, nil, resp.WorkloadsResource, true, false)
	vAssert("C08/rollback-accepted", err == nil)
	back := vLoadNode(p, "node")
	for i := 0; i < n; i++ {
		vAssert("C08/rollback-restores-cores", back.Usage.CPUMap[vCores[i]] == nd.useP[i])
	}
	vAssert("C08/rollback-restores-memory", back.Usage.Memory == nd.memUse)
	if numa {
		for _, id := range []string{"0", "1"} {
			vAssert("C08/rollback-restores-numa-memory", back.Usage.NUMAMemory[id] == nd.nUse[id])
		}
	}
	if grid {
		vAssert("C08/rollback-restores-cpu", back.Usage.CPU == nd.cpuUse)
	}
}

func init() {
	vRegisterP("VerifAlloc", VerifAlloc)
}
