package cpumem

import (
	"context"
	"encoding/json"
	"fmt"
	"math"

	"github.com/mitchellh/mapstructure"

	"github.com/projecteru2/core/resource/plugins/cpumem/types"
	plugintypes "github.com/projecteru2/core/resource/plugins/types"
)

// VerifFix (C15): recorded usage drifted arbitrarily from the recorded
// workloads; FixNodeResource must restore usage = sum(workloads) and a
// following check must report no differences.
// arg: c=,numa=,w=<workloads>,mp=
func VerifFix(arg string) {
	n := vParam(arg, "c", 2)
	numa := vParam(arg, "numa", 0) == 1
	nw := vParam(arg, "w", 2)
	sb := vParam(arg, "sb", 100)
	mp := vParam(arg, "mp", 2*sb)
	vCPUGridScale = vParam(arg, "g", 2)
	defer func() { vCPUGridScale = 2 }()
	ctx := context.Background()
	p, kv := vPlugin(sb, -1)

	// capacity and an arbitrary (possibly corrupted) recorded usage
	nd := vMkNode("", n, numa, mp, false, true)
	for i := 0; i < n; i++ {
		// recorded per-core usage may be anything, including negative or above capacity
		nd.info.Usage.CPUMap[vCores[i]] = vInt("recorded_core"+vCores[i], -mp, 2*mp)
	}
	nd.info.Usage.Memory = vInt64("recorded_mem", -vMemMax, vMemMax)
	if numa {
		for _, id := range []string{"0", "1"} {
			nd.info.Usage.NUMAMemory[id] = vInt64("recorded_numa_mem"+id, -vMemMax, vMemMax)
		}
	}
	if vBool("recorded_core0_missing") {
		delete(nd.info.Usage.CPUMap, vCores[0])
	}
	// written directly to the store: drift is not something Validate ever saw
	data, _ := json.Marshal(nd.info)
	kv.data[fmt.Sprintf(nodeResourceInfoKey, "node")] = string(data)

	// the recorded workloads, fitting within capacity
	sumCore := make([]int, n)
	var sumMem int64
	sumNUMA := map[string]int64{"0": 0, "1": 0}
	var sumCPU float64
	var raws []plugintypes.WorkloadResource
	for k := 0; k < nw; k++ {
		pfx := fmt.Sprintf("w%d_", k)
		w := &types.WorkloadResource{CPUMap: types.CPUMap{}}
		w.CPURequest = vGrid(pfx+"cpu", vCPUGridScale, 0, 8<<vCPUGridScale)
		w.CPULimit = w.CPURequest
		sumCPU += w.CPURequest
		for i := 0; i < n; i++ {
			if vBool(pfx + "uses_core" + vCores[i]) {
				pc := vInt(pfx+"core"+vCores[i], 1, mp)
				w.CPUMap[vCores[i]] = pc
				sumCore[i] += pc
			}
		}
		w.MemoryRequest = vInt64(pfx+"mem", 0, vMemMax)
		w.MemoryLimit = w.MemoryRequest
		sumMem += w.MemoryRequest
		if numa && vBool(pfx+"on_numa") {
			id := "0"
			if vBool(pfx + "numa1") {
				id = "1"
			}
			w.NUMANode = id
			w.NUMAMemory = types.NUMAMemory{id: w.MemoryRequest}
			sumNUMA[id] += w.MemoryRequest
		}
		raw := plugintypes.WorkloadResource{}
		vEncode(w, &raw)
		raws = append(raws, raw)
	}
	for i := 0; i < n; i++ {
		vAssume(sumCore[i] <= nd.capP[i])
	}
	vAssume(sumMem <= nd.memCap)
	if numa {
		for _, id := range []string{"0", "1"} {
			vAssume(sumNUMA[id] <= nd.nCap[id])
		}
	}

	resp, err := p.FixNodeResource(ctx, "node", raws)
	vAssert("C15/repair-succeeds", err == nil)
	if err != nil {
		return
	}
	vCover("drift-found", len(resp.Diffs) > 0)
	vCover("no-drift", len(resp.Diffs) == 0)
	after := vLoadNode(p, "node")
	for i := 0; i < n; i++ {
		vAssert("C15/core-usage-is-sum", after.Usage.CPUMap[vCores[i]] == sumCore[i])
	}
	vAssert("C15/memory-usage-is-sum", after.Usage.Memory == sumMem)
	vAssert("C15/cpu-usage-is-sum", after.Usage.CPU == sumCPU)
	if numa {
		for _, id := range []string{"0", "1"} {
			vAssert("C15/numa-memory-usage-is-sum", after.Usage.NUMAMemory[id] == sumNUMA[id])
		}
	}
	again, err := p.GetNodeResourceInfo(ctx, "node", raws)
	vAssert("C15/check-after-repair-succeeds", err == nil)
	if err == nil {
		vAssert("C15/check-after-repair-reports-no-differences", len(again.Diffs) == 0)
	}
}

// VerifRemap (C32): unbound workloads get exactly the cores with at least one
// full share free (all cores when there is none); bound workloads are untouched.
// arg: c=,w=,sb=,mp=
func VerifRemap(arg string) {
	n := vParam(arg, "c", 2)
	nw := vParam(arg, "w", 2)
	sb := vParam(arg, "sb", 100)
	mp := vParam(arg, "mp", 2*sb)
	ctx := context.Background()
	p, _ := vPlugin(sb, -1)
	nd := vMkNode("", n, false, mp, true, false)
	vStoreNode(p, "node", nd)

	ids := []string{"wa", "wb", "wc"}
	bound := make([]bool, nw)
	ws := map[string]plugintypes.WorkloadResource{}
	for k := 0; k < nw; k++ {
		w := &types.WorkloadResource{CPUMap: types.CPUMap{}, CPULimit: 0.5, CPURequest: 0.5}
		w.MemoryLimit = vInt64("mem_limit_"+ids[k], 0, vMemMax)
		if vBool("bound_" + ids[k]) {
			bound[k] = true
			w.CPUMap[vCores[vChoose("core_of_"+ids[k], n)]] = vInt("pieces_of_"+ids[k], 1, sb)
		}
		raw := plugintypes.WorkloadResource{}
		vEncode(w, &raw)
		ws[ids[k]] = raw
	}

	resp, err := p.CalculateRemap(ctx, "node", ws)
	vAssert("C32/remap-succeeds", err == nil)
	if err != nil {
		return
	}
	free := make([]bool, n)
	anyFree := false
	for i := 0; i < n; i++ {
		free[i] = vConcrete(vIte(nd.capP[i]-nd.useP[i] >= sb, 1, 0)) == 1
		anyFree = anyFree || free[i]
	}
	vCover("some-core-free", anyFree)
	vCover("no-core-free", !anyFree)
	unbound := 0
	for k := 0; k < nw; k++ {
		ep, has := resp.EngineParamsMap[ids[k]]
		if bound[k] {
			vAssert("C32/bound-workload-untouched", !has)
			continue
		}
		unbound++
		vAssert("C32/unbound-workload-remapped", has)
		if !has {
			continue
		}
		e := &types.EngineParams{}
		if mapstructure.Decode(ep, e) != nil {
			vAssert("C32/engine-params-parse", false)
			continue
		}
		vAssert("C32/marked-as-remap", e.Remap)
		for i := 0; i < n; i++ {
			_, in := e.CPUMap[vCores[i]]
			vAssert("C32/exactly-the-free-cores", in == (free[i] || !anyFree))
		}
		vAssert("C32/no-unknown-cores", len(e.CPUMap) <= n)
		vAssert("C32/memory-limit-kept", e.Memory == vParse(ws[ids[k]]).MemoryLimit)
	}
	vAssert("C32/only-unbound-answered", len(resp.EngineParamsMap) == unbound)
}

// VerifTotals (C07): nodes with zero capacity are not offered and the reported
// total is the saturating sum of the offered capacities.
// arg: nodes=<1..3>,b=<bind>
func VerifTotals(arg string) {
	nn := vParam(arg, "nodes", 2)
	bind := vParam(arg, "b", 0) == 1
	sb := 100
	ctx := context.Background()
	p, _ := vPlugin(sb, -1)
	names := []string{"na", "nb", "nc"}
	memReq := vInt64("mem_request", 0, vMemMax)
	raw := vRequest(bind, 1000, memReq, memReq)
	req := &types.WorkloadResourceRequest{}
	req.Parse(raw)
	if req.Validate() != nil {
		vAssume(false)
	}
	want := make([]int, nn)
	for k := 0; k < nn; k++ {
		nd := vMkNode(names[k]+"_", 1, false, 2*sb, true, false)
		vStoreNode(p, names[k], nd)
		want[k] = p.doGetNodeDeployCapacity(vLoadNode(p, names[k]), req).Capacity
	}
	resp, err := p.GetNodesDeployCapacity(ctx, names[:nn], raw)
	vAssert("C07/capacity-query-succeeds", err == nil)
	if err != nil {
		return
	}
	total := 0
	for k := 0; k < nn; k++ {
		c, offered := resp.NodeDeployCapacityMap[names[k]]
		vAssert("C07/zero-capacity-not-offered", offered == (want[k] > 0))
		if offered {
			vAssert("C07/offered-capacity-is-node-capacity", c.Capacity == want[k])
			s := total + c.Capacity
			total = vIte(vOr(s < total, vOr(total == math.MaxInt, c.Capacity == math.MaxInt)), math.MaxInt, s)
		}
	}
	vCover("unlimited-node", total == math.MaxInt)
	vCover("finite-total", total < math.MaxInt)
	vAssert("C07/total-is-saturating-sum", resp.Total == total)
}

func init() {
	vRegisterP("VerifFix", VerifFix)
	vRegisterP("VerifRemap", VerifRemap)
	vRegisterP("VerifTotals", VerifTotals)
}
