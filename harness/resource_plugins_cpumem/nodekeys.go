package cpumem

// C22 (plugin half): every recorded node has resource information.  Removing one
// node's resource record must not touch any other node's record, whatever the
// two names are - including a name that is a prefix of the other ("n1"/"n10") or
// continues it with a separator.  The real Plugin.RemoveNode runs over the model
// KV, which interprets delete options (WithPrefix, ranges) like the server.

import (
	"context"

	cpumemtypes "github.com/projecteru2/core/resource/plugins/cpumem/types"
)


// VerifRemoveNodeKeys.
func VerifRemoveNodeKeys(string) {
	vNodeNames := []string{"n1", "n10", "n1/x", "n", "n2", "n1:a"}
	p, kv := vPlugin(100, -1)
	ctx := context.Background()
	a := vChoose("removed_node_name", len(vNodeNames))
	b := vChoose("other_node_name", len(vNodeNames))
	vAssume(a != b)
	for _, name := range []string{vNodeNames[a], vNodeNames[b]} {
		info := &cpumemtypes.NodeResourceInfo{
			Capacity: &cpumemtypes.NodeResource{CPU: 1, CPUMap: cpumemtypes.CPUMap{"0": 100}, Memory: 1024},
			Usage:    &cpumemtypes.NodeResource{CPUMap: cpumemtypes.CPUMap{"0": 0}},
		}
		vAssume(p.doSetNodeResourceInfo(ctx, name, info) == nil)
	}
	before := len(kv.data)
	_, err := p.RemoveNode(ctx, vNodeNames[a])
	vAssert("C22/plugin-remove-node-succeeds", err == nil)
	_, errA := p.doGetNodeResourceInfo(ctx, vNodeNames[a])
	_, errB := p.doGetNodeResourceInfo(ctx, vNodeNames[b])
	vCover("node-removed", errA != nil)
	vAssert("C22/removed-node-has-no-resource-record", errA != nil)
	vAssert("C22/other-node-keeps-its-resource-record", errB == nil && len(kv.data) == before-1)
}

func init() { vRegisterP("VerifRemoveNodeKeys", VerifRemoveNodeKeys) }
