package cpumem

// Harness support for the cpumem plugin: an in-memory meta.KV model, a plugin
// built around it and arbitrary (symbolic) node states.

import (
	"context"

	"github.com/cockroachdb/errors"
	"github.com/mitchellh/mapstructure"
	"go.etcd.io/etcd/api/v3/mvccpb"
	clientv3 "go.etcd.io/etcd/client/v3"

	"github.com/projecteru2/core/resource/plugins/cpumem/types"
	plugintypes "github.com/projecteru2/core/resource/plugins/types"
	"github.com/projecteru2/core/store/etcdv3/meta"
	coretypes "github.com/projecteru2/core/types"
)

// vKV models the three meta.KV calls the plugin makes (GetMulti, Put, Delete);
// any other call hits the nil embedded interface and fails the harness.
type vKV struct {
	meta.KV
	data map[string]string
	puts int
}

func (k *vKV) GetMulti(_ context.Context, keys []string, _ ...clientv3.OpOption) ([]*mvccpb.KeyValue, error) {
	kvs := []*mvccpb.KeyValue{}
	for _, key := range keys {
		v, ok := k.data[key]
		if !ok {
			return nil, errors.Wrapf(coretypes.ErrInvaildCount, "key: %s", key)
		}
		kvs = append(kvs, &mvccpb.KeyValue{Key: []byte(key), Value: []byte(v)})
	}
	return kvs, nil
}

func (k *vKV) Put(_ context.Context, key, val string, _ ...clientv3.OpOption) (*clientv3.PutResponse, error) {
	k.data[key] = val
	k.puts++
	return &clientv3.PutResponse{}, nil
}

// Delete interprets the request the way the server does: the options are applied
// by the library's own OpDelete, and a ranged delete (WithPrefix, WithRange)
// removes every key in [key, end).
func (k *vKV) Delete(_ context.Context, key string, opts ...clientv3.OpOption) (*clientv3.DeleteResponse, error) {
	op := clientv3.OpDelete(key, opts...)
	end := string(op.RangeBytes())
	doomed := []string{}
	for kk := range k.data {
		if kk == key || (end != "" && kk >= key && (kk < end || end == "\x00")) {
			doomed = append(doomed, kk)
		}
	}
	for _, kk := range doomed {
		delete(k.data, kk)
	}
	return &clientv3.DeleteResponse{Deleted: int64(len(doomed))}, nil
}

func vPlugin(sb, ms int) (*Plugin, *vKV) {
	kv := &vKV{data: map[string]string{}}
	cfg := coretypes.Config{}
	cfg.Scheduler.ShareBase = sb
	cfg.Scheduler.MaxShare = ms
	return &Plugin{name: name, config: cfg, store: kv}, kv
}

var vCores = []string{"0", "1", "2", "3", "4", "5"}

const vMemMax = 1 << 40

// vCPUGridScale: symbolic CPU totals are multiples of 2^-scale cores (2: quarter cores).
var vCPUGridScale = 2

type vNode struct {
	n              int
	capP, useP     []int
	memCap, memUse int64
	numa           bool
	numaOf         []string
	nCap, nUse     map[string]int64
	cpuUse         float64
	info           *types.NodeResourceInfo
}

// vMkNode: an arbitrary node state; pfx distinguishes several nodes.
// cpuGrid: usage CPU total is a symbolic quarter-core value, else 0.
func vMkNode(pfx string, n int, numa bool, maxPieces int, v1, cpuGrid bool) *vNode {
	nd := &vNode{n: n, numa: numa, nCap: map[string]int64{}, nUse: map[string]int64{}}
	capacity := &types.NodeResource{CPUMap: types.CPUMap{}, NUMAMemory: types.NUMAMemory{}, NUMA: types.NUMA{}}
	usage := &types.NodeResource{CPUMap: types.CPUMap{}, NUMAMemory: types.NUMAMemory{}, NUMA: types.NUMA{}}
	capacity.CPU = float64(n)
	if cpuGrid {
		nd.cpuUse = vGrid(pfx+"cpu_use", vCPUGridScale, 0, 64<<vCPUGridScale)
		usage.CPU = nd.cpuUse
	}
	for i := 0; i < n; i++ {
		c := vInt(pfx+"cap_core"+vCores[i], 0, maxPieces)
		u := vInt(pfx+"use_core"+vCores[i], 0, maxPieces)
		vAssume(u <= c)
		nd.capP = append(nd.capP, c)
		nd.useP = append(nd.useP, u)
		capacity.CPUMap[vCores[i]] = c
		usage.CPUMap[vCores[i]] = u
	}
	nd.memCap = vInt64(pfx+"mem_cap", 0, vMemMax)
	nd.memUse = vInt64(pfx+"mem_use", 0, vMemMax)
	if v1 {
		vAssume(nd.memUse <= nd.memCap)
	}
	capacity.Memory = nd.memCap
	usage.Memory = nd.memUse
	if numa {
		var sumCap, sumUse int64
		for i := 0; i < n; i++ {
			id := "0"
			if i >= (n+1)/2 {
				id = "1"
			}
			nd.numaOf = append(nd.numaOf, id)
			capacity.NUMA[vCores[i]] = id
			usage.NUMA[vCores[i]] = id
		}
		for _, id := range []string{"0", "1"} {
			c := vInt64(pfx+"numa_mem_cap"+id, 0, vMemMax)
			u := vInt64(pfx+"numa_mem_use"+id, 0, vMemMax)
			vAssume(u <= c)
			nd.nCap[id], nd.nUse[id] = c, u
			capacity.NUMAMemory[id] = c
			usage.NUMAMemory[id] = u
			sumCap += c
			sumUse += u
		}
		if v1 {
			vAssume(vAnd(sumCap <= nd.memCap, sumUse <= nd.memUse))
		}
	}
	nd.info = &types.NodeResourceInfo{Capacity: capacity, Usage: usage}
	return nd
}

// vStore writes the node through the plugin's own validation + persistence.
func vStoreNode(p *Plugin, name string, nd *vNode) {
	if err := p.doSetNodeResourceInfo(context.Background(), name, nd.info.DeepCopy()); err != nil {
		vAssume(false) // not a state the plugin accepts (V0)
	}
}

func vLoadNode(p *Plugin, name string) *types.NodeResourceInfo {
	info, err := p.doGetNodeResourceInfo(context.Background(), name)
	if err != nil {
		vAssert("harness/node-readable", false)
		vAssume(false)
	}
	return info
}

func vRequest(bind bool, milli int, memReq, memLimit int64) plugintypes.WorkloadResourceRequest {
	return plugintypes.WorkloadResourceRequest{
		"cpu-bind":       bind,
		"cpu-request":    float64(milli) / 1000,
		"cpu-limit":      float64(milli) / 1000,
		"memory-request": memReq,
		"memory-limit":   memLimit,
	}
}

func vParse(raw plugintypes.WorkloadResource) *types.WorkloadResource {
	w := &types.WorkloadResource{}
	if err := w.Parse(raw); err != nil {
		vAssert("harness/workload-resource-parses", false)
		vAssume(false)
	}
	return w
}

// vEncode turns a typed workload resource into the raw form stored with a
// workload (the same mapstructure conversion the plugin applies to its answers).
func vEncode(w *types.WorkloadResource, out *plugintypes.WorkloadResource) error {
	return mapstructure.Decode(w, out)
}
