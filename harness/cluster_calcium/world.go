package calcium

// Abstract ledger world for C10/C11: the store records workloads with one
// scalar resource amount each ("m" plugin, key "amount"), the resource manager
// keeps per-node usage with the delta/incr semantics verified for the real
// plugin in C08, the engine keeps the set of containers and the amount applied
// to each.  Exactly one fallible call may fail (symbolic position); every call
// after the injected fault succeeds (compensating steps succeed).

import (
	"context"
	"fmt"

	"github.com/cockroachdb/errors"

	"github.com/projecteru2/core/engine"
	"github.com/projecteru2/core/resource"
	resourcetypes "github.com/projecteru2/core/resource/types"
	"github.com/projecteru2/core/types"
)

//verif:zerofn (*github.com/projecteru2/core/cluster/calcium.Calcium).RemapResourceAndLog

var vErrInjected = errors.New("injected fault")

type vWorld struct {
	st            *vStore
	usage         map[string]int // node -> recorded usage (resource manager)
	capacity      map[string]int // node -> recorded capacity (resource manager)
	slots         map[string]int // node -> instances the resource manager reports as deployable
	processing    map[string]int // node -> in-progress marker
	created       int
	allocsOK      int  // successful rmgr.Alloc calls so far
	createSeen    bool // an engine.VirtualizationCreate was attempted
	leakRegion    bool // the fault fired after an Alloc succeeded and before any create attempt
	crashMode     bool // the "fault" is a crash of the core process: from that call on nothing has any effect
	frozen        bool
	repair        bool                    // GetNodeResourceInfo(fix=true) repairs usage
	siteFaults    map[string]map[int]bool // two-fault mode: site -> failing occurrences
	siteCalls     map[string]int
	posSiteCalls  map[string]int // positional mode: calls per site so far (for the replay hint)
	closedStreams int
	exitCode      int
	applied       map[string]int // container id -> amount the engine applied
	running       map[string]bool
	calls         int
	faultAt       int
	site          string // where the fault fired
	sites         []string
	countStatus   bool                // GetDeployStatus answers with recorded + in-progress counts (C13)
	onStep        func()              // observer called at every intercepted call (C13)
	planned       map[string]int      // node -> instances the deployment asked the resource manager for
	allocSeq      int                 // allocations handed out so far
	returned      map[string]bool     // allocations given back through RollbackAlloc
	cancelCaller  func()              // the caller of the operation gives up (its context ends)
	copies        map[string][]*vCopy // file copies the engine was asked for, per workload
	copyBehaviour map[string]int
	removalBegan  bool            // some workload's removal has released its usage (the removal phase has begun)
	delRefused    map[string]bool // nodes whose DeleteProcessing was the injected failure
}

// fault reports whether the current fallible call is the one that fails.
func (w *vWorld) fault(site string) bool {
	if w.onStep != nil && !w.frozen {
		w.onStep()
	}
	if w.frozen {
		return true // the process is dead: nothing reaches the outside world any more
	}
	if w.siteFaults != nil {
		// two-fault mode: the n-th call of a given (forward-only) site fails
		w.siteCalls[site]++
		if w.siteFaults[site] != nil && w.siteFaults[site][w.siteCalls[site]] {
			w.site += site + ";"
			if w.crashMode {
				w.frozen = true
			}
			return true
		}
		return false
	}
	w.calls++
	w.sites = append(w.sites, site)
	if w.posSiteCalls == nil {
		w.posSiteCalls = map[string]int{}
	}
	w.posSiteCalls[site]++
	hit := w.calls == w.faultAt
	if h := vHintGet("fault_hint"); h != "" && w.faultAt > 0 {
		// native replay: the global position of a call depends on the goroutine order; the
		// symbolic run noted WHICH call failed as "<site>#<occurrence of that site>"
		hit = h == fmt.Sprintf("%s#%d", site, w.posSiteCalls[site]) && w.site == ""
	}
	if hit {
		vHint("fault_hint", fmt.Sprintf("%s#%d", site, w.posSiteCalls[site]))
		w.site = site
		w.leakRegion = w.allocsOK > 0 && !w.createSeen
		if w.crashMode {
			w.frozen = true
		}
		return true
	}
	return false
}

func vAmount(r resourcetypes.Resources) int {
	if r == nil {
		return 0
	}
	p, ok := r["m"]
	if !ok {
		return 0
	}
	a, _ := p["amount"].(int)
	return a
}

func vRes(amount int) resourcetypes.Resources {
	return resourcetypes.Resources{"m": resourcetypes.RawParams{"amount": amount}}
}

// vSlot: which allocation (node + sequence number) a resources value stands for; "" if none.
// Real allocations differ per instance (cores, volumes); the tag keeps them apart in the scalar ledger.
func vSlot(r resourcetypes.Resources) string {
	if p, ok := r["m"]; ok {
		s, _ := p["slot"].(string)
		return s
	}
	return ""
}

// ---- resource manager model ----

type vRmgr struct {
	resource.Manager
	w *vWorld
}

// addUsage changes a node's recorded usage the way the plugins do it: the node's
// record is READ, changed and WRITTEN BACK in two separate store operations, with
// nothing but the cluster's pod lock excluding another writer in between (a
// scheduling point under gosym's bounded preemption).
func (w *vWorld) addUsage(node string, delta int) {
	vMu.Lock()
	cur := w.usage[node]
	vMu.Unlock()
	vYield()
	vMu.Lock()
	w.usage[node] = cur + delta
	vMu.Unlock()
}

// vEnter is vGuard for methods that change usage through addUsage (the mutex is
// not held across the read-modify-write window).
func vEnter(w *vWorld, site string) bool {
	vYield()
	vMu.Lock()
	defer vMu.Unlock()
	return w.fault(site)
}

func (m *vRmgr) Realloc(_ context.Context, node string, origin, opts resourcetypes.Resources) (resourcetypes.Resources, resourcetypes.Resources, resourcetypes.Resources, error) {
	if vEnter(m.w, "rmgr.Realloc") {
		return nil, nil, nil, vErrInjected
	}
	delta := vAmount(opts)
	m.w.addUsage(node, delta)
	return vRes(vAmount(origin) + delta), vRes(delta), vRes(vAmount(origin) + delta), nil
}

func (m *vRmgr) RollbackRealloc(_ context.Context, node string, delta resourcetypes.Resources) error {
	if vEnter(m.w, "rmgr.RollbackRealloc") {
		return vErrInjected
	}
	m.w.addUsage(node, -vAmount(delta))
	return nil
}

func (m *vRmgr) SetNodeResourceUsage(ctx context.Context, node string, _ resourcetypes.Resources, _ resourcetypes.Resources, ws []resourcetypes.Resources, delta bool, incr bool) (resourcetypes.Resources, resourcetypes.Resources, error) {
	if vEnter(m.w, "rmgr.SetNodeResourceUsage") {
		return nil, nil, vErrInjected
	}
	if err := ctx.Err(); err != nil {
		return nil, nil, err // the real manager talks to the store: a dead context fails the call
	}
	vMu.Lock()
	before := m.w.usage[node]
	vMu.Unlock()
	sum := 0
	for _, r := range ws {
		sum += vAmount(r)
	}
	switch {
	case !delta:
		m.w.addUsage(node, sum-before)
	case incr:
		m.w.addUsage(node, sum)
	default:
		m.w.addUsage(node, -sum)
		m.w.removalBegan = true
	}
	vMu.Lock()
	defer vMu.Unlock()
	return vRes(before), vRes(m.w.usage[node]), nil
}

func (m *vRmgr) Alloc(_ context.Context, node string, count int, opts resourcetypes.Resources) ([]resourcetypes.Resources, []resourcetypes.Resources, error) {
	if vEnter(m.w, "rmgr.Alloc") {
		return nil, nil, vErrInjected
	}
	vMu.Lock()
	m.w.allocsOK++
	if m.w.planned != nil {
		m.w.planned[node] += count
	}
	vMu.Unlock()
	var rs, es []resourcetypes.Resources
	for i := 0; i < count; i++ {
		m.w.allocSeq++
		slot := fmt.Sprintf("%s#%d", node, m.w.allocSeq)
		r := vRes(vAmount(opts))
		r["m"]["slot"] = slot
		rs = append(rs, r)
		es = append(es, vRes(vAmount(opts)))
	}
	total := 0
	for i := 0; i < count; i++ {
		total += vAmount(opts)
	}
	m.w.addUsage(node, total)
	return rs, es, nil
}

// Remap only serves the fire-and-forget remap (skipped under gosym).
func (m *vRmgr) Remap(context.Context, string, []*types.Workload) (map[string]resourcetypes.Resources, error) {
	defer vGuard()()
	return nil, nil
}

func (m *vRmgr) RollbackAlloc(_ context.Context, node string, ws []resourcetypes.Resources) error {
	if vEnter(m.w, "rmgr.RollbackAlloc") {
		return vErrInjected
	}
	sum := 0
	for _, r := range ws {
		sum += vAmount(r)
		if s := vSlot(r); s != "" {
			if m.w.returned == nil {
				m.w.returned = map[string]bool{}
			}
			m.w.returned[s] = true
		}
	}
	m.w.addUsage(node, -sum)
	return nil
}

// ---- engine model ----

type vEngine struct {
	engine.API
	w *vWorld
}

func (e *vEngine) VirtualizationUpdateResource(_ context.Context, id string, params resourcetypes.Resources) error {
	defer vGuard()()
	if e.w.fault("engine.VirtualizationUpdateResource") {
		return vErrInjected
	}
	e.w.applied[id] = vAmount(params)
	return nil
}

func (e *vEngine) VirtualizationRemove(_ context.Context, id string, _, _ bool) error {
	defer vGuard()()
	if e.w.cancelCaller != nil && vBool("caller_gives_up_during_removal_of_"+id) {
		e.w.cancelCaller() // the client went away while the engine was removing the container
		e.w.cancelCaller = nil
		vCover("caller-gave-up", true)
	}
	if e.w.fault("engine.VirtualizationRemove") {
		return vErrInjected
	}
	delete(e.w.applied, id)
	delete(e.w.running, id)
	return nil
}

// ---- store: workload records (with faults) ----

func (s *vStore) GetWorkload(ctx context.Context, id string) (*types.Workload, error) {
	defer vGuard()()
	if err := ctx.Err(); err != nil {
		return nil, err
	}
	if s.w != nil && s.w.fault("store.GetWorkload") {
		return nil, vErrInjected
	}
	wl, ok := s.workloads[id]
	if !ok {
		return nil, types.ErrWorkloadNotExists
	}
	cp := *wl
	return &cp, nil
}

func (s *vStore) UpdateWorkload(_ context.Context, wl *types.Workload) error {
	defer vGuard()()
	if s.w != nil && s.w.fault("store.UpdateWorkload") {
		return vErrInjected
	}
	if _, ok := s.workloads[wl.ID]; !ok {
		return types.ErrWorkloadNotExists
	}
	cp := *wl
	s.workloads[wl.ID] = &cp
	return nil
}

func (s *vStore) RemoveWorkload(_ context.Context, wl *types.Workload) error {
	defer vGuard()()
	if s.w != nil && s.w.fault("store.RemoveWorkload") {
		return vErrInjected
	}
	delete(s.workloads, wl.ID)
	return nil
}

// AddWorkload records the workload and, in the same transaction, takes one
// instance off the deployment's in-progress marker (BatchCreateAndDecr).
func (s *vStore) AddWorkload(_ context.Context, wl *types.Workload, p *types.Processing) error {
	defer vGuard()()
	if s.w != nil && s.w.fault("store.AddWorkload") {
		return vErrInjected
	}
	cp := *wl
	s.workloads[wl.ID] = &cp
	if p != nil && s.w != nil && s.w.processing != nil {
		if _, ok := s.w.processing[p.Nodename]; ok {
			s.w.processing[p.Nodename]--
		}
	}
	return nil
}

// vMkWorld: one node "a" in pod p1 with nw recorded workloads whose amounts are
// symbolic; usage satisfies the invariant usage = sum(workloads).
func vMkWorld(nw, maxFaultAt int) (*Calcium, *vWorld, []int) {
	return vMkWorldOn(nw, maxFaultAt, 1)
}

// vMkWorldOn: the same over `nodes` nodes (a, b); with two nodes every workload
// but the first sits on a symbolically chosen node.
func vMkWorldOn(nw, maxFaultAt, nodes int) (*Calcium, *vWorld, []int) {
	c, st := vCluster(nodes, 1)
	w := &vWorld{st: st, usage: map[string]int{}, capacity: map[string]int{}, applied: map[string]int{}, running: map[string]bool{}}
	st.w = w
	c.rmgr = &vRmgr{w: w}
	eng := &vEngine{w: w}
	for _, n := range st.nodes {
		n.Engine = eng
	}
	ids := []string{"w1", "w2", "w3"}
	var amounts []int
	for k := 0; k < nw; k++ {
		a := vInt("amount_"+ids[k], 0, 1<<30)
		amounts = append(amounts, a)
		node := "a"
		if nodes > 1 && k > 0 {
			node = vNodeNames[vChoose("node_of_"+ids[k], nodes)]
		}
		st.workloads[ids[k]] = &types.Workload{ID: ids[k], Name: "app_entry_" + ids[k], Nodename: node, Podname: "p1", Resources: vRes(a), EngineParams: vRes(a), Engine: eng}
		w.applied[ids[k]] = a
		w.running[ids[k]] = true
		w.usage[node] += a
	}
	w.faultAt = vChoose("fault_at", maxFaultAt+1) // 0 = no fault
	return c, w, amounts
}

// vLedgerSum: sum of the amounts recorded on node a.
func vLedgerSum(w *vWorld) int { return vLedgerSumOn(w, "a") }

func vLedgerSumOn(w *vWorld, node string) int {
	sum := 0
	for _, wl := range w.st.workloads {
		if wl.Nodename == node {
			sum += vAmount(wl.Resources)
		}
	}
	return sum
}
