package calcium

// C29 (cluster side): sending a file in chunks to a set of workloads writes to
// every target that accepts it content byte-identical to the input with the
// requested owner and mode, reports exactly one result per target, and the
// call always finishes - also when a target does not exist or its engine
// rejects or aborts the copy.  The real Calcium.SendLargeFile (per-target
// senders, io.Pipe, copy goroutines, wait group) runs under the scheduler with
// exact channel semantics; a call that can never finish is a hang violation.

import (
	"context"
	"fmt"
	"io"

	"github.com/projecteru2/core/types"
)

type vCopy struct {
	content    string
	uid, gid   int
	mode, size int64
	target     string
	outcome    int // 0 accepted, 1 rejected before reading, 2 aborted after the first read
}

func (e *vEngine) VirtualizationCopyChunkTo(_ context.Context, id, target string, size int64, content io.Reader, uid, gid int, mode int64) error {
	beh := e.w.copyBehaviour[id]
	cp := &vCopy{uid: uid, gid: gid, mode: mode, size: size, target: target, outcome: beh}
	vMu.Lock()
	e.w.copies[id] = append(e.w.copies[id], cp)
	vMu.Unlock()
	switch beh {
	case 1:
		return vErrInjected // e.g. the container is gone: the engine answers without reading the stream
	case 2:
		buf := make([]byte, 2)
		n, _ := content.Read(buf)
		cp.content = string(buf[:n])
		return vErrInjected // the engine aborts the copy half way
	}
	bs, err := io.ReadAll(content)
	cp.content = string(bs)
	return err
}

// VerifSendLarge. arg: chunks=<chunks of the file>,targets=<1|2>
func VerifSendLarge(arg string) {
	nChunks := vParam(arg, "chunks", 2)
	nTargets := vParam(arg, "targets", 2)
	vNoSample() // natively goroutine timing decides the order of the results
	c, w, _ := vMkWorldOn(2, 0, 1)
	w.faultAt = 0
	w.copies = map[string][]*vCopy{}
	w.copyBehaviour = map[string]int{}
	ids := []string{"w1", "w2"}[:nTargets]
	for _, id := range ids {
		w.copyBehaviour[id] = vChoose("engine_of_"+id, 3)
	}
	if nTargets > 1 && vBool("w2_does_not_exist") {
		delete(w.st.workloads, "w2")
	}
	want := ""
	var chunks []string
	for k := 0; k < nChunks; k++ {
		ch := fmt.Sprintf("%c%c", 'a'+k, 'A'+k)
		chunks = append(chunks, ch)
		want += ch
	}
	uid, gid, mode := vInt("uid", 0, 65535), vInt("gid", 0, 65535), vInt64("mode", 0, 0o7777)
	in := make(chan *types.SendLargeFileOptions)
	go func() {
		for _, ch := range chunks {
			in <- &types.SendLargeFileOptions{IDs: ids, Dst: "/data/file", Size: int64(len(want)), Chunk: []byte(ch), UID: uid, GID: gid, Mode: mode}
		}
		close(in)
	}()
	results := map[string]int{}
	failed := map[string]bool{}
	for m := range c.SendLargeFile(context.Background(), in) { // must end: a block here is a hang violation
		results[m.ID]++
		if m.Error != nil {
			failed[m.ID] = true
		}
	}
	vDrain()
	vCover("some-target-accepts", true)
	for _, id := range ids {
		_, exists := w.st.workloads[id]
		vAssert("C29/exactly-one-result-per-target", results[id] == 1)
		if !exists {
			vCover("missing-target", true)
			vAssert("C29/missing-target-reports-an-error", failed[id])
			continue
		}
		vMu.Lock()
		cps := w.copies[id]
		vMu.Unlock()
		vAssert("C29/one-copy-per-target-and-file", len(cps) == 1)
		if len(cps) != 1 {
			continue
		}
		cp := cps[0]
		vAssert("C29/owner-mode-size-and-path-passed-on", cp.uid == uid && cp.gid == gid && cp.mode == mode && cp.size == int64(len(want)) && cp.target == "/data/file")
		if cp.outcome == 0 {
			vCover("target-accepted", true)
			vAssert("C29/accepted-target-gets-identical-content", cp.content == want)
			vAssert("C29/accepted-target-reports-success", !failed[id])
		} else {
			vCover("target-refused", true)
			vAssert("C29/refusing-target-reports-an-error", failed[id])
		}
	}
	vAssert("C20/everything-released", len(w.st.held) == 0)
}

func init() { vRegisterP("VerifSendLarge", VerifSendLarge) }
