package calcium

// C10 / C11 (and the lock order of C20) for the cluster operations, one
// operation from an arbitrary ledger state satisfying usage = sum(workloads),
// with a single injected fault at a symbolic position.

import (
	"context"

	"github.com/projecteru2/core/types"
)

// vCheckOutcome: the C10 invariant always, and the C11 "no lasting effect" claim
// when the operation reports failure.
func vCheckOutcome(op string, w *vWorld, err error, preUsage int, preAmounts map[string]int, preApplied map[string]int) {
	vObserve("fault_site", w.site)
	vAssert("C10,C11/usage-equals-sum-of-recorded-workloads", w.usage["a"] == vLedgerSum(w))
	if err == nil {
		return
	}
	vCover(op+"-failed", true)
	vAssert("C11/failed-"+op+"-leaves-usage-unchanged", w.usage["a"] == preUsage)
	for id, a := range preAmounts {
		wl, ok := w.st.workloads[id]
		vAssert("C11/failed-"+op+"-keeps-workload-recorded", ok)
		if ok {
			vAssert("C11/failed-"+op+"-keeps-recorded-resources", vAmount(wl.Resources) == a)
			// (in this world a workload's engine parameters are its resources)
			vAssert("C11/failed-"+op+"-keeps-recorded-engine-parameters", vAmount(wl.EngineParams) == a)
		}
		ap, has := w.applied[id]
		vAssert("C11/failed-"+op+"-keeps-container", has)
		if has {
			vAssert("C11/failed-"+op+"-keeps-engine-resources", ap == preApplied[id])
		}
	}
	vAssert("C11/failed-"+op+"-adds-no-workload", len(w.st.workloads) == len(preAmounts))
}

func vSnapshot(w *vWorld) (int, map[string]int, map[string]int) {
	am, ap := map[string]int{}, map[string]int{}
	for id, wl := range w.st.workloads {
		am[id] = vAmount(wl.Resources)
	}
	for id, a := range w.applied {
		ap[id] = a
	}
	return w.usage["a"], am, ap
}

// VerifReallocOp: Calcium.ReallocResource end to end.  arg: fault=<max fault position>
func VerifReallocOp(arg string) {
	maxFault := vParam(arg, "fault", 8)
	c, w, amounts := vMkWorld(2, maxFault)
	delta := vInt("delta", -(1 << 30), 1<<30)
	vAssume(amounts[0]+delta >= 0)
	preUsage, preAm, preAp := vSnapshot(w)
	err := c.ReallocResource(context.Background(), &types.ReallocOptions{ID: "w1", Resources: vRes(delta)})

	vCover("realloc-ok", err == nil)
	if err == nil {
		vAssert("C10/realloc-records-new-amount", vAmount(w.st.workloads["w1"].Resources) == amounts[0]+delta)
		vAssert("C11/realloc-applies-new-amount-to-engine", w.applied["w1"] == amounts[0]+delta)
	}
	vCheckOutcome("realloc", w, err, preUsage, preAm, preAp)

	// C20: pod lock before workload lock, each group ascending, all released
	seenWorkloadLock := false
	lastPod, lastWl := "", ""
	for _, ev := range w.st.trace {
		if ev[0] != 'L' {
			continue
		}
		key := ev[2:]
		if len(key) > 6 && key[:6] == "clock_" {
			seenWorkloadLock = true
			vAssert("C20/locks-ascending-without-repeats", lastWl < key)
			lastWl = key
		} else {
			vAssert("C20/pod-locks-before-workload-locks", !seenWorkloadLock)
			vAssert("C20/locks-ascending-without-repeats", lastPod < key)
			lastPod = key
		}
	}
	vAssert("C20/everything-released", len(w.st.held) == 0)
}

func init() {
	vRegisterP("VerifReallocOp", VerifReallocOp)
}

// vCheckPerWorkload: parts of a remove/dissociate call.  A workload reported as
// done is gone (and, for remove, its container too); every other workload is
// exactly as before (C11); usage equals the ledger sum in all cases (C10).
func vCheckPerWorkload(op string, w *vWorld, done map[string]bool, preAm, preAp map[string]int, removesContainer bool) {
	vObserve("fault_site", w.site)
	for n := range w.st.nodes {
		vAssert("C10,C11/usage-equals-sum-of-recorded-workloads", w.usage[n] == vLedgerSumOn(w, n))
	}
	for id, a := range preAm {
		wl, recorded := w.st.workloads[id]
		_, hasContainer := w.applied[id]
		if done[id] && !done["failed:"+id] {
			vCover(op+"-part-succeeded", true)
			vAssert("C11/"+op+"-success-removes-record", !recorded)
			if removesContainer {
				vAssert("C11/"+op+"-success-removes-container", !hasContainer)
			}
			continue
		}
		vCover(op+"-part-failed", true)
		vAssert("C11/failed-"+op+"-keeps-workload-recorded", recorded)
		if recorded {
			vAssert("C11/failed-"+op+"-keeps-recorded-resources", vAmount(wl.Resources) == a)
		}
		vAssert("C11/failed-"+op+"-keeps-container", hasContainer)
	}
}

// VerifRemoveOp: Calcium.RemoveWorkload over two workloads.  arg: fault=,nodes=<1|2>
func VerifRemoveOp(arg string) {
	c, w, _ := vMkWorldOn(2, vParam(arg, "fault", 14), vParam(arg, "nodes", 1))
	_, preAm, preAp := vSnapshot(w)
	ctx, cancel := context.WithCancel(context.Background())
	defer cancel()
	if vParam(arg, "cancel", 0) == 1 {
		w.cancelCaller = cancel // the caller's context may end while a container is being removed
	}
	ch, err := c.RemoveWorkload(ctx, []string{"w1", "w2"}, true)
	done := map[string]bool{}
	if err == nil {
		for m := range ch {
			if m.Success && m.WorkloadID != "" {
				done[m.WorkloadID] = true
			}
			if !m.Success && m.WorkloadID != "" {
				done["failed:"+m.WorkloadID] = true // any part reporting failure must have left the workload alone
			}
		}
	}
	vCheckPerWorkload("remove", w, done, preAm, preAp, true)
	vAssert("C20/everything-released", len(w.st.held) == 0)
}

// VerifDissociateOp: Calcium.DissociateWorkload over two workloads.  arg: fault=,nodes=<1|2>
func VerifDissociateOp(arg string) {
	c, w, _ := vMkWorldOn(2, vParam(arg, "fault", 12), vParam(arg, "nodes", 1))
	_, preAm, preAp := vSnapshot(w)
	ch, err := c.DissociateWorkload(context.Background(), []string{"w1", "w2"})
	done := map[string]bool{}
	if err == nil {
		for m := range ch {
			if m.Error == nil && m.WorkloadID != "" {
				done[m.WorkloadID] = true
			}
			if m.Error != nil && m.WorkloadID != "" {
				done["failed:"+m.WorkloadID] = true
			}
		}
	}
	vCheckPerWorkload("dissociate", w, done, preAm, preAp, false)
	vAssert("C20/everything-released", len(w.st.held) == 0)
}

func init() {
	vRegisterP("VerifRemoveOp", VerifRemoveOp)
	vRegisterP("VerifDissociateOp", VerifDissociateOp)
}
