package calcium

// C21 (node selection yields exactly the distinct filtered nodes) and
// C20 (one global lock order) at the cluster layer.

import (
	"context"
	"fmt"

	"github.com/projecteru2/core/cluster"
	"github.com/projecteru2/core/types"
)

// VerifFilterNodes. arg: n=<nodes in the universe>,inc=<include list length>,exc=<exclude list length>
func VerifFilterNodes(arg string) {
	n := vParam(arg, "n", 3)
	inc := vParam(arg, "inc", 3)
	exc := vParam(arg, "exc", 0)
	c, st := vCluster(n, 1)
	st.podOrder = vPermutation("pod_order", vNodeNames, n)
	filter := &types.NodeFilter{Podname: "p1", All: true}
	wantSet := map[string]bool{}
	if inc > 0 {
		for k := 0; k < inc; k++ {
			name := vNodeNames[vChoose(fmt.Sprintf("include_%d", k), n)]
			filter.Includes = append(filter.Includes, name)
			wantSet[name] = true
		}
	} else {
		for i := 0; i < n; i++ {
			wantSet[vNodeNames[i]] = true
		}
		for k := 0; k < exc; k++ {
			name := vNodeNames[vChoose(fmt.Sprintf("exclude_%d", k), n)]
			filter.Excludes = append(filter.Excludes, name)
			delete(wantSet, name)
		}
	}
	ns, err := c.filterNodes(context.Background(), filter)
	vAssert("C21/selection-succeeds", err == nil)
	if err != nil {
		return
	}
	got := map[string]int{}
	for _, nd := range ns {
		got[nd.Name]++
	}
	vObserve("selected", len(ns))
	for i := 0; i < n; i++ {
		name := vNodeNames[i]
		if wantSet[name] {
			vAssert("C21/each-wanted-node-exactly-once", got[name] == 1)
		} else {
			vAssert("C21/no-unwanted-node", got[name] == 0)
		}
	}
	vAssert("C21/nothing-else-selected", len(ns) == len(wantSet))
}

// VerifNodeLocks: lock acquisition order of the node-locking wrappers.
// arg: n=,pods=,inc=,op=<0 pod locks | 1 node-operation lock (single node, as every caller uses it)>
func VerifNodeLocks(arg string) {
	n := vParam(arg, "n", 3)
	pods := vParam(arg, "pods", 2)
	inc := vParam(arg, "inc", 2)
	op := vParam(arg, "op", 0)
	c, st := vCluster(n, pods)
	st.podOrder = vPermutation("pod_order", vNodeNames, n)
	filter := &types.NodeFilter{All: true}
	if op == 1 {
		inc = 1
	}
	for k := 0; k < inc; k++ {
		filter.Includes = append(filter.Includes, vNodeNames[vChoose(fmt.Sprintf("include_%d", k), n)])
	}
	st.lockFailAt = vChoose("lock_fails_at", 3)
	ran := false
	heldInside := 0
	f := func(_ context.Context, nodes map[string]*types.Node) error {
		ran = true
		heldInside = len(st.held)
		return nil
	}
	var err error
	if op == 0 {
		err = c.withNodesPodLocked(context.Background(), filter, f)
	} else {
		// node-operation locks are requested only while nothing else is held
		vAssert("C20/node-operation-lock-taken-alone", len(st.held) == 0)
		err = c.withNodeOperationLocked(context.Background(), filter.Includes[0], func(ctx context.Context, _ *types.Node) error { return f(ctx, nil) })
		if ran {
			vAssert("C20/node-operation-lock-is-single", heldInside == 1)
		}
	}
	if st.lockFailAt == 0 || st.lockFailAt > st.lockCalls {
		vAssert("C20/operation-runs", err == nil && ran)
	}
	vCover("two-locks", heldInside >= 2)
	vCover("one-lock", heldInside == 1)
	// acquisition order: strictly ascending keys (hence no repeats)
	last := ""
	for _, ev := range st.trace {
		if ev[0] == 'L' {
			key := ev[2:]
			vAssert("C20/locks-ascending-without-repeats", last < key)
			last = key
		}
	}
	vAssert("C20/everything-released", len(st.held) == 0)
}

// VerifWorkloadLocks: workload locks are taken in ascending id order, each once.
// arg: ids=<id list length>
func VerifWorkloadLocks(arg string) {
	k := vParam(arg, "ids", 3)
	c, st := vCluster(1, 1)
	universe := []string{"w1", "w2", "w3"}
	if vParam(arg, "long", 0) == 1 {
		// realistic 64-character ids; two of them end in the same characters (lock keys must not be derived from a suffix)
		universe = []string{"1111111111111111111111111111111111111111111111111111111abcdef0", "2222222222222222222222222222222222222222222222222222222abcdef0", "3333333333333333333333333333333333333333333333333333333fedcba9"}
	}
	for _, id := range universe {
		st.workloads[id] = &types.Workload{ID: id}
	}
	var ids []string
	for j := 0; j < k; j++ {
		ids = append(ids, universe[vChoose(fmt.Sprintf("id_%d", j), len(universe))])
	}
	// the k-th lock acquisition may fail: what was acquired before must still be released
	st.lockFailAt = vChoose("lock_fails_at", k+1)
	err := c.withWorkloadsLocked(context.Background(), false, ids, func(context.Context, map[string]*types.Workload) error { return nil })
	vCover("a-later-lock-fails", err != nil && len(st.trace) > 0)
	if st.lockFailAt == 0 {
		vAssert("C20/operation-runs", err == nil)
	}
	last := ""
	for _, ev := range st.trace {
		if ev[0] == 'L' {
			key := ev[2:]
			vAssert("C20/locks-ascending-without-repeats", last < key)
			last = key
		}
	}
	// one lock per distinct workload named in the request
	distinct := map[string]bool{}
	for _, id := range ids {
		distinct[id] = true
	}
	if err == nil {
		locked := 0
		for _, ev := range st.trace {
			if ev[0] == 'L' {
				locked++
			}
		}
		vAssert("C20/one-lock-per-distinct-workload", locked == len(distinct))
	}
	vAssert("C20/everything-released", len(st.held) == 0)
	_ = cluster.WorkloadLock
}

func init() {
	vRegisterP("VerifFilterNodes", VerifFilterNodes)
	vRegisterP("VerifNodeLocks", VerifNodeLocks)
	vRegisterP("VerifWorkloadLocks", VerifWorkloadLocks)
}
