package calcium

// C11 for the node operations: a failed add-node / remove-node / set-node leaves
// nodes and node capacity exactly as they were.

import (
	"context"

	"github.com/projecteru2/core/engine"
	enginefactory "github.com/projecteru2/core/engine/factory"
	enginetypes "github.com/projecteru2/core/engine/types"
	plugintypes "github.com/projecteru2/core/resource/plugins/types"
	resourcetypes "github.com/projecteru2/core/resource/types"
	"github.com/projecteru2/core/types"
)

//verif:zerofn github.com/projecteru2/core/engine/factory.RemoveEngineFromCache
//verif:zerofn (*github.com/projecteru2/core/cluster/calcium.Calcium).doSendNodeMetrics

var vTheWorld *vWorld // the world the engine factory model serves

// vGetEngine models engine/factory.GetEngine (connects to the node's engine).
//
//verif:stub github.com/projecteru2/core/engine/factory.GetEngine
func vGetEngine(_ context.Context, _ types.Config, _, _, _, _, _ string) (engine.API, error) {
	if vTheWorld.fault("engine.GetEngine") {
		return nil, vErrInjected
	}
	return &vEngine{w: vTheWorld}, nil
}

func (e *vEngine) Info(context.Context) (*enginetypes.Info, error) {
	defer vGuard()()
	if e.w.fault("engine.Info") {
		return nil, vErrInjected
	}
	return &enginetypes.Info{NCPU: 4, MemTotal: 1 << 30}, nil
}

// ---- resource manager: node capacity records ----

func (m *vRmgr) AddNode(_ context.Context, name string, res resourcetypes.Resources, _ *enginetypes.Info) (resourcetypes.Resources, error) {
	defer vGuard()()
	if m.w.fault("rmgr.AddNode") {
		return nil, vErrInjected
	}
	m.w.capacity[name] = vAmount(res)
	return vRes(vAmount(res)), nil
}

func (m *vRmgr) RemoveNode(ctx context.Context, name string) error {
	defer vGuard()()
	if m.w.fault("rmgr.RemoveNode") {
		return vErrInjected
	}
	if err := ctx.Err(); err != nil {
		return err // the real manager talks to its plugins / the store: a dead context fails the call
	}
	delete(m.w.capacity, name)
	delete(m.w.usage, name)
	return nil
}

func (m *vRmgr) GetNodeResourceInfo(_ context.Context, name string, ws []*types.Workload, fix bool) (resourcetypes.Resources, resourcetypes.Resources, []string, error) {
	defer vGuard()()
	if m.w.fault("rmgr.GetNodeResourceInfo") {
		return nil, nil, nil, vErrInjected
	}
	if fix && m.w.repair {
		// repair: usage := sum of the recorded workloads (the real plugin's repair is C15)
		vRepairUsage(m.w, name, ws)
	}
	return vRes(m.w.capacity[name]), vRes(m.w.usage[name]), nil, nil
}

func (m *vRmgr) SetNodeResourceCapacity(_ context.Context, name string, _ resourcetypes.Resources, req resourcetypes.Resources, delta bool, incr bool) (resourcetypes.Resources, resourcetypes.Resources, error) {
	defer vGuard()()
	if m.w.fault("rmgr.SetNodeResourceCapacity") {
		return nil, nil, vErrInjected
	}
	before := m.w.capacity[name]
	switch {
	case !delta:
		m.w.capacity[name] = vAmount(req)
	case incr:
		m.w.capacity[name] += vAmount(req)
	default:
		m.w.capacity[name] -= vAmount(req)
	}
	return vRes(before), vRes(m.w.capacity[name]), nil
}

func (m *vRmgr) GetNodeMetrics(context.Context, *types.Node) ([]*plugintypes.Metrics, error) {
	defer vGuard()()
	return nil, nil
}

// ---- store: node records ----

func (s *vStore) AddNode(_ context.Context, opts *types.AddNodeOptions) (*types.Node, error) {
	defer vGuard()()
	if s.w != nil && s.w.fault("store.AddNode") {
		return nil, vErrInjected
	}
	if s.w != nil && s.w.cancelCaller != nil && vBool("caller_gives_up_during_the_store_write") {
		s.w.cancelCaller() // the client went away: the write fails with its context
		s.w.cancelCaller = nil
		vCover("caller-gave-up", true)
		return nil, context.Canceled
	}
	n := &types.Node{NodeMeta: types.NodeMeta{Name: opts.Nodename, Podname: opts.Podname, Endpoint: opts.Endpoint, Labels: opts.Labels}}
	s.nodes[opts.Nodename] = n
	cp := *n
	return &cp, nil
}

func (s *vStore) RemoveNode(_ context.Context, n *types.Node) error {
	defer vGuard()()
	if s.w != nil && s.w.fault("store.RemoveNode") {
		return vErrInjected
	}
	delete(s.nodes, n.Name)
	return nil
}

func (s *vStore) UpdateNodes(_ context.Context, ns ...*types.Node) error {
	defer vGuard()()
	if s.w != nil && s.w.fault("store.UpdateNodes") {
		return vErrInjected
	}
	for _, n := range ns {
		cp := *n
		s.nodes[n.Name] = &cp
	}
	return nil
}

func (s *vStore) SetNodeStatus(context.Context, *types.Node, int64) error { return nil }

// vNodeWorld: node "a" (pod p1, endpoint e0, capacity symbolic) with no workloads.
func vNodeWorld(maxFault int) (*Calcium, *vWorld, int) {
	c, w, _ := vMkWorld(0, maxFault)
	capA := vInt("capacity_a", 0, 1<<30)
	w.capacity["a"] = capA
	w.st.nodes["a"].Endpoint = "e0"
	vTheWorld = w
	if vNativeRun {
		// natively the real engine factory runs: give it its cache
		enginefactory.InitEngineCache(context.Background(), c.config, nil)
	}
	return c, w, capA
}

func VerifAddNodeOp(arg string) {
	c, w, capA := vNodeWorld(vParam(arg, "fault", 6))
	amount := vInt("new_capacity", 0, 1<<30)
	// The engine factory is a model only under gosym; natively the fake engine of
	// the repository answers ("mock://" endpoint) and its two calls cannot fail.
	if w.faultAt == 1 || w.faultAt == 2 {
		vNoSample()
		if vNativeRun {
			return
		}
	}
	if vNativeRun {
		w.calls = 2
	}
	ctx, cancel := context.WithCancel(context.Background())
	defer cancel()
	if vParam(arg, "cancel", 0) == 1 {
		w.cancelCaller = cancel
	}
	_, err := c.AddNode(ctx, &types.AddNodeOptions{Nodename: "b", Podname: "p1", Endpoint: "mock://e1", Resources: vRes(amount)})
	vObserve("fault_site", w.site)
	_, inStore := w.st.nodes["b"]
	_, hasCap := w.capacity["b"]
	vCover("add-node-ok", err == nil)
	vCover("add-node-failed", err != nil)
	if err == nil {
		vAssert("C11/add-node-records-node", inStore)
		vAssert("C11/add-node-records-capacity", hasCap && w.capacity["b"] == amount)
	} else {
		vAssert("C11/failed-add-node-leaves-no-node", !inStore)
		vAssert("C11/failed-add-node-leaves-no-capacity", !hasCap)
	}
	vAssert("C11/add-node-leaves-other-nodes-alone", w.capacity["a"] == capA && len(w.st.nodes) == vIte(inStore, 2, 1))
}

func VerifRemoveNodeOp(arg string) {
	c, w, capA := vNodeWorld(vParam(arg, "fault", 6))
	err := c.RemoveNode(context.Background(), "a")
	vObserve("fault_site", w.site)
	_, inStore := w.st.nodes["a"]
	_, hasCap := w.capacity["a"]
	vCover("remove-node-ok", err == nil)
	vCover("remove-node-failed", err != nil)
	vKnown("F-C11-remove-node-partial", w.site == "rmgr.RemoveNode")
	if err == nil {
		vAssert("C11/remove-node-removes-node", !inStore)
		vAssert("C11/remove-node-removes-capacity", !hasCap)
	} else {
		vAssert("C11/failed-remove-node-keeps-node", inStore)
		vAssert("C11/failed-remove-node-keeps-capacity", hasCap && w.capacity["a"] == capA)
	}
	vAssert("C20/everything-released", len(w.st.held) == 0)
}

func VerifSetNodeOp(arg string) {
	c, w, capA := vNodeWorld(vParam(arg, "fault", 8))
	amount := vInt("capacity_change", 0, 1<<30)
	delta := vBool("delta")
	withRes := vBool("with_resources")
	opts := &types.SetNodeOptions{Nodename: "a", Endpoint: "e9", Delta: delta, Bypass: types.TriKeep}
	if withRes {
		opts.Resources = vRes(amount)
	}
	_, err := c.SetNode(context.Background(), opts)
	vObserve("fault_site", w.site)
	vCover("set-node-ok", err == nil)
	vCover("set-node-failed", err != nil)
	n := w.st.nodes["a"]
	if err == nil {
		vAssert("C11/set-node-updates-endpoint", n.Endpoint == "e9")
		if withRes {
			vAssert("C11/set-node-sets-capacity", w.capacity["a"] == vIte(delta, capA+amount, amount))
		} else {
			vAssert("C11/set-node-keeps-capacity", w.capacity["a"] == capA)
		}
	} else {
		vAssert("C11/failed-set-node-keeps-capacity", w.capacity["a"] == capA)
		vAssert("C11/failed-set-node-keeps-node-record", n != nil && n.Endpoint == "e0")
	}
	vAssert("C20/everything-released", len(w.st.held) == 0)
}

func init() {
	vRegisterP("VerifAddNodeOp", VerifAddNodeOp)
	vRegisterP("VerifRemoveNodeOp", VerifRemoveNodeOp)
	vRegisterP("VerifSetNodeOp", VerifSetNodeOp)
}
