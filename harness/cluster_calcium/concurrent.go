package calcium

// C10 / C22 under CONCURRENT operations: two cluster API calls run as two
// goroutines over one world whose locks really exclude each other.  Every
// external call of the model (store / resource manager / engine / log / lock)
// is a scheduling point; the solver decides, within a preemption budget, at
// which of them the other operation takes over (bounded symbolic preemption).
// When both have returned and every goroutine has ended - a quiescent point -
// the ledger invariant (C10) and referential consistency (C22) must hold.

import (
	"context"
	"sync/atomic"
	"time"

	enginefactory "github.com/projecteru2/core/engine/factory"
	"github.com/projecteru2/core/strategy"
	"github.com/projecteru2/core/types"
)

// vConcWorld: nodes a, b (pod p1) with capacity records; w1 on a, w2 on a or b.
func vConcWorld() (*Calcium, *vWorld, []int) {
	c, w, amounts := vMkWorldOn(2, 0, 2)
	w.faultAt = 0
	w.st.blocking = true
	w.slots = map[string]int{}
	w.processing = map[string]int{}
	for n := range w.st.nodes {
		w.capacity[n] = 1 << 40
		w.slots[n] = 2
		if _, ok := w.usage[n]; !ok {
			w.usage[n] = 0
		}
	}
	c.wal = &vWAL{w: w}
	vTheWorld = w
	if vNativeRun {
		// natively the real engine factory runs: give it its cache
		enginefactory.InitEngineCache(context.Background(), c.config, nil)
	}
	return c, w, amounts
}

type vOp struct {
	name string
	run  func(tag string) error // tag: "a" / "b", makes the names of symbolic inputs unique per operation
}

func vOps(c *Calcium, w *vWorld, amounts []int) []vOp {
	ctx := context.Background()
	drainRemove := func(ids []string) error {
		ch, err := c.RemoveWorkload(ctx, ids, true)
		if err != nil {
			return err
		}
		for range ch {
		}
		return nil
	}
	return []vOp{
		{"remove-w1", func(string) error { return drainRemove([]string{"w1"}) }},
		{"remove-w2", func(string) error { return drainRemove([]string{"w2"}) }},
		{"realloc-w1", func(tag string) error {
			d := vInt("delta_w1_of_"+tag, -(1 << 20), 1<<20)
			vAssume(amounts[0]+d >= 0)
			return c.ReallocResource(ctx, &types.ReallocOptions{ID: "w1", Resources: vRes(d)})
		}},
		{"realloc-w2", func(tag string) error {
			d := vInt("delta_w2_of_"+tag, -(1 << 20), 1<<20)
			vAssume(amounts[1]+d >= 0)
			return c.ReallocResource(ctx, &types.ReallocOptions{ID: "w2", Resources: vRes(d)})
		}},
		{"dissociate-w2", func(tag string) error {
			ch, err := c.DissociateWorkload(ctx, []string{"w2"})
			if err != nil {
				return err
			}
			for range ch {
			}
			return nil
		}},
		{"remove-node-b", func(string) error { return c.RemoveNode(ctx, "b") }},
		{"create-one", func(tag string) error {
			ch, err := c.CreateWorkload(ctx, &types.DeployOptions{
				Name: "app", Podname: "p1", Image: "img", Count: 1, DeployStrategy: strategy.Auto, IgnorePull: true,
				Entrypoint: &types.Entrypoint{Name: "entry"},
				NodeFilter: &types.NodeFilter{Podname: "p1", Includes: []string{"b"}},
				Resources:  vRes(vInt("amount_new_of_"+tag, 0, 1<<20)),
			})
			if err != nil {
				return err
			}
			for range ch {
			}
			return nil
		}},
		{"set-node-b", func(tag string) error {
			_, err := c.SetNode(ctx, &types.SetNodeOptions{Nodename: "b", Delta: true, Resources: vRes(vInt("capacity_change_of_"+tag, 0, 1<<20)), Bypass: types.TriKeep})
			return err
		}},
		{"remove-w1-w2", func(string) error { return drainRemove([]string{"w1", "w2"}) }},
		{"remove-w2-w1", func(string) error { return drainRemove([]string{"w2", "w1"}) }},
		{"dissociate-w2-w1", func(tag string) error {
			ch, err := c.DissociateWorkload(ctx, []string{"w2", "w1"})
			if err != nil {
				return err
			}
			for range ch {
			}
			return nil
		}},
	}
}

// VerifConcurrentOps. arg: a=<op index>,b=<op index>,preempt=<budget>
func VerifConcurrentOps(arg string) {
	c, w, amounts := vConcWorld()
	ops := vOps(c, w, amounts)
	opA, opB := ops[vParam(arg, "a", 0)], ops[vParam(arg, "b", 1)]
	first := int64(0)
	if !vIsSymbolic() {
		// native replay: imitate the solver's schedule (support: vYield)
		atomic.StoreInt64(&vYieldN, 0)
		atomic.StoreInt64(&vJitter, 1)
		first = vFirstPreempt()
	}
	doneA := false
	var errA error
	go func() {
		errA = opA.run("a")
		vMu.Lock()
		doneA = true
		vMu.Unlock()
	}()
	if !vIsSymbolic() {
		// the second operation starts where the solver's schedule first hands over to it
		// (never, if the first operation is not preempted: it then runs to its end first)
		deadline := time.Now().Add(200 * time.Millisecond)
		for time.Now().Before(deadline) {
			vMu.Lock()
			d := doneA
			vMu.Unlock()
			if d || (first > 0 && atomic.LoadInt64(&vYieldN) >= first) {
				break
			}
			time.Sleep(100 * time.Microsecond)
		}
	}
	errB := opB.run("b")
	vBlockUntil(func() bool {
		vMu.Lock()
		defer vMu.Unlock()
		return doneA
	})
	vDrain()
	vNoSample() // native schedules are not controlled: completed paths are not used for translator validation
	vObserve("op_a_failed", errA != nil)
	vObserve("op_b_failed", errB != nil)
	vCover("both-operations-succeed", errA == nil && errB == nil)

	vMu.Lock()
	defer vMu.Unlock()
	// recorded finding: RemoveNode does not exclude a deployment that has already chosen the node
	vKnown("F-C22-remove-node-races-with-create", (opA.name == "remove-node-b" && opB.name == "create-one") || (opA.name == "create-one" && opB.name == "remove-node-b"))
	// C10: usage of every recorded node = sum of the workloads recorded on it
	for n := range w.st.nodes {
		vAssert("C10/usage-equals-sum-of-recorded-workloads-after-concurrent-operations", w.usage[n] == vLedgerSumOn(w, n))
	}
	// C22: referential consistency
	for _, wl := range w.st.workloads {
		_, ok := w.st.nodes[wl.Nodename]
		vAssert("C22/every-recorded-workload-belongs-to-a-recorded-node", ok)
	}
	for n := range w.st.nodes {
		_, ok := w.capacity[n]
		vAssert("C22/every-recorded-node-has-resource-information", ok)
	}
	for n := range w.capacity {
		_, ok := w.st.nodes[n]
		vAssert("C22/every-node-resource-record-belongs-to-a-recorded-node", ok)
	}
	vAssert("C20/everything-released", len(w.st.held) == 0)
	vAssert("C12/no-in-progress-marker-remains", len(w.processing) == 0)
}

func init() { vRegisterP("VerifConcurrentOps", VerifConcurrentOps) }
