package calcium

import "github.com/projecteru2/core/types"

// VerifDecodeProbe: translator self-test for the `return v, f()` evaluation order
// (gc reads v after the call): the WAL handler's Decode must return the decoded nodes.
func VerifDecodeProbe() {
	h := &WorkloadResourceAllocatedHandler{}
	bs, err := h.Encode([]*types.Node{{NodeMeta: types.NodeMeta{Name: "a"}}, {NodeMeta: types.NodeMeta{Name: "b"}}})
	vAssert("probe/encode-ok", err == nil)
	v, err := h.Decode(bs)
	vAssert("probe/decode-ok", err == nil)
	nodes, _ := v.([]*types.Node)
	vObserve("decoded_nodes", len(nodes))
	vAssert("probe/decode-returns-the-decoded-slice", len(nodes) == 2)
}

func init() { vRegister("VerifDecodeProbe", VerifDecodeProbe) }
