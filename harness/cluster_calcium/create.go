package calcium

// C10 / C11 / C12 (single sequential schedule) for Calcium.CreateWorkload.

import (
	"context"
	"fmt"

	enginetypes "github.com/projecteru2/core/engine/types"
	plugintypes "github.com/projecteru2/core/resource/plugins/types"
	resourcetypes "github.com/projecteru2/core/resource/types"
	"github.com/projecteru2/core/strategy"
	"github.com/projecteru2/core/types"
	"github.com/projecteru2/core/wal"
)

// ---- WAL model ----

// vWAL keeps the logged events like wal.Hydro does (whose replay logic is the
// subject of C16): an event stays until its commit function runs; Recover
// replays the uncommitted ones in logging order through the registered handlers.
type vWAL struct {
	w        *vWorld
	open     int
	commits  int
	handlers map[string]wal.EventHandler
	events   []*vEvent
	trace    string
}

type vEvent struct {
	typ  string
	item []byte
	done bool
}

func (l *vWAL) Register(h wal.EventHandler) {
	if l.handlers == nil {
		l.handlers = map[string]wal.EventHandler{}
	}
	l.handlers[h.Typ()] = h
}
func (l *vWAL) Close() error { return nil }
func (l *vWAL) Log(typ string, item any) (wal.Commit, error) {
	defer vGuard()()
	if l.w.fault("wal.Log") {
		return nil, vErrInjected
	}
	ev := &vEvent{typ: typ}
	if h, ok := l.handlers[typ]; ok {
		bs, err := h.Encode(item)
		if err != nil {
			return nil, err
		}
		ev.item = bs
	}
	l.events = append(l.events, ev)
	l.open++
	return func() error {
		if l.w.frozen {
			return vErrInjected
		}
		ev.done = true
		l.open--
		l.commits++
		return nil
	}, nil
}

func (l *vWAL) Recover(ctx context.Context) {
	for _, ev := range l.events {
		if ev.done {
			continue
		}
		h, ok := l.handlers[ev.typ]
		if !ok {
			l.trace += ev.typ + ":nohandler;"
			continue
		}
		item, err := h.Decode(ev.item)
		if err != nil {
			l.trace += ev.typ + ":decode-error;"
			continue
		}
		need, err := h.Check(ctx, item)
		if err != nil {
			l.trace += ev.typ + ":check-error;"
			continue
		}
		if need {
			if err := h.Handle(ctx, item); err != nil {
				l.trace += ev.typ + ":handle-error;"
				continue
			}
		}
		l.trace += ev.typ + ":done;"
		ev.done = true
	}
}

// ---- more of the world ----

func (m *vRmgr) GetNodesDeployCapacity(_ context.Context, names []string, _ resourcetypes.Resources) (map[string]*plugintypes.NodeDeployCapacity, int, error) {
	defer vGuard()()
	if m.w.fault("rmgr.GetNodesDeployCapacity") {
		return nil, 0, vErrInjected
	}
	out := map[string]*plugintypes.NodeDeployCapacity{}
	total := 0
	for _, n := range names {
		if s := vConcrete(m.w.slots[n]); s > 0 {
			out[n] = &plugintypes.NodeDeployCapacity{Capacity: s, Weight: 1}
			total += s
		}
	}
	return out, total, nil
}

func (s *vStore) GetDeployStatus(_ context.Context, appname, entryname string) (map[string]int, error) {
	defer vGuard()()
	if s.w.fault("store.GetDeployStatus") {
		return nil, vErrInjected
	}
	out := map[string]int{}
	if s.w.countStatus && appname == "app" && entryname == "entry" {
		// (the status is kept per application and entrypoint: another pair has none)
		for n := range s.nodes {
			if k := vDeployCount(s.w, n); k != 0 {
				out[n] = k
			}
		}
	}
	return out, nil
}

// vDeployCount: what the store reports as the node's deploy status - recorded
// workloads of the application entrypoint plus the in-progress marker.
func vDeployCount(w *vWorld, node string) int {
	k := w.processing[node]
	for _, wl := range w.st.workloads {
		if wl.Nodename == node {
			k++
		}
	}
	return k
}

func (s *vStore) CreateProcessing(_ context.Context, p *types.Processing, count int) error {
	defer vGuard()()
	if s.w.fault("store.CreateProcessing") {
		return vErrInjected
	}
	s.w.processing[p.Nodename] += count
	return nil
}

func (s *vStore) DeleteProcessing(_ context.Context, p *types.Processing) error {
	defer vGuard()()
	if s.w.fault("store.DeleteProcessing") {
		if s.w.delRefused == nil {
			s.w.delRefused = map[string]bool{}
		}
		s.w.delRefused[p.Nodename] = true
		return vErrInjected
	}
	delete(s.w.processing, p.Nodename)
	return nil
}

func (e *vEngine) VirtualizationCreate(_ context.Context, opts *enginetypes.VirtualizationCreateOptions) (*enginetypes.VirtualizationCreated, error) {
	defer vGuard()()
	e.w.createSeen = true
	if e.w.fault("engine.VirtualizationCreate") {
		return nil, vErrInjected
	}
	e.w.created++
	id := fmt.Sprintf("c%d", e.w.created)
	e.w.applied[id] = vAmount(opts.EngineParams)
	return &enginetypes.VirtualizationCreated{ID: id, Name: opts.Name}, nil
}

func (e *vEngine) VirtualizationStart(_ context.Context, id string) error {
	defer vGuard()()
	if e.w.fault("engine.VirtualizationStart") {
		return vErrInjected
	}
	e.w.running[id] = true
	return nil
}

func (e *vEngine) VirtualizationInspect(_ context.Context, id string) (*enginetypes.VirtualizationInfo, error) {
	defer vGuard()()
	if e.w.fault("engine.VirtualizationInspect") {
		return nil, vErrInjected
	}
	return &enginetypes.VirtualizationInfo{ID: id, Running: e.w.running[id]}, nil
}

// VerifCreateOp: CreateWorkload with AUTO over two nodes.
// arg: fault=<max position of the single fault>,count=<max instances>,slots=<max per node>,
//
//	two=<1: instead of one positional fault, two independent per-instance failures>
func VerifCreateOp(arg string) {
	maxFault := vParam(arg, "fault", 16)
	maxCount := vParam(arg, "count", 2)
	maxSlots := vParam(arg, "slots", 2)
	twoFaults := vParam(arg, "two", 0) == 1
	c, st := vCluster(2, 1)
	w := &vWorld{st: st, usage: map[string]int{}, capacity: map[string]int{}, applied: map[string]int{}, running: map[string]bool{},
		slots: map[string]int{}, processing: map[string]int{}}
	st.w = w
	c.rmgr = &vRmgr{w: w}
	lg := &vWAL{w: w}
	c.wal = lg
	eng := &vEngine{w: w}
	for _, n := range []string{"a", "b"} {
		st.nodes[n].Engine = eng
		w.slots[n] = vInt("slots_"+n, 0, maxSlots)
	}
	amount := vInt("amount", 0, 1<<30)
	count := vInt("count", 1, maxCount)
	if twoFaults {
		// two independent failures among the per-instance forward steps (their
		// compensations use other calls and succeed)
		sites := []string{"engine.VirtualizationCreate", "store.AddWorkload", "engine.VirtualizationStart", "engine.VirtualizationInspect"}
		w.siteFaults, w.siteCalls = map[string]map[int]bool{}, map[string]int{}
		for _, tag := range []string{"first", "second"} {
			site := sites[vChoose(tag+"_failing_step", len(sites))]
			occ := vChoose(tag+"_failing_occurrence", maxCount) + 1
			if w.siteFaults[site] == nil {
				w.siteFaults[site] = map[int]bool{}
			}
			w.siteFaults[site][occ] = true
		}
	} else {
		w.faultAt = vChoose("fault_at", maxFault+1)
	}

	opts := &types.DeployOptions{
		Name: "app", Podname: "p1", Image: "img", Count: count, DeployStrategy: strategy.Auto, IgnorePull: true,
		Entrypoint: &types.Entrypoint{Name: "entry"},
		NodeFilter: &types.NodeFilter{Podname: "p1", Includes: []string{"a", "b"}},
		Resources:  vRes(amount),
	}
	ch, err := c.CreateWorkload(context.Background(), opts)
	vAssert("C12/accepted-request-returns-a-stream", err == nil && ch != nil)
	if err != nil {
		return
	}
	var msgs []*types.CreateWorkloadMessage
	for m := range ch { // the stream always closes (a block here ends the path as unsupported)
		msgs = append(msgs, m)
	}
	vObserve("fault_site", w.site)
	vObserve("messages", len(msgs))

	okCount, failCount := 0, 0
	perNode := map[string]int{}
	for _, m := range msgs {
		if m.Error != nil {
			failCount++
			continue
		}
		okCount++
		perNode[m.Nodename]++
		// each success names a workload that is recorded, started and placed as reported
		wl, recorded := w.st.workloads[m.WorkloadID]
		vAssert("C12/success-names-a-recorded-workload", recorded)
		if recorded {
			vAssert("C12/success-recorded-on-reported-node", wl.Nodename == m.Nodename)
			vAssert("C12/success-recorded-with-reported-resources", vAmount(wl.Resources) == amount)
		}
		vAssert("C12/success-is-started", w.running[m.WorkloadID])
	}
	planned := vConcrete(count)
	feasible := vConcrete(w.slots["a"])+vConcrete(w.slots["b"]) >= planned
	vCover("create-all-succeed", okCount == planned)
	vCover("create-some-fail", failCount > 0)
	// a single failure with nothing created, or exactly one message per planned instance
	vAssert("C12/one-failure-or-one-message-per-instance", (len(msgs) == 1 && failCount == 1 && okCount == 0) || len(msgs) == planned)
	if !feasible {
		vAssert("C12/infeasible-request-creates-nothing", okCount == 0)
	}
	// recorded finding: a failure inside the condition step after rmgr.Alloc succeeded
	// is not compensated (Txn rolls back nothing for a failed condition)
	vKnown("F-C10-create-alloc-not-compensated", w.leakRegion)
	// every failure leaves no record, container or usage behind (C11/C12); usage = ledger (C10)
	// an allocation that was given back must not belong to an instance that is still recorded
	for _, wl := range w.st.workloads {
		if s := vSlot(wl.Resources); s != "" {
			vAssert("C11,C12/rollback-gives-back-only-the-failed-instances-allocations", !w.returned[s])
		}
	}
	vAssert("C11,C12/create-records-exactly-the-successes", len(w.st.workloads) == okCount)
	vAssert("C11,C12/create-leaves-no-stray-container", len(w.applied) == okCount)
	for _, n := range []string{"a", "b"} {
		sum := 0
		for _, wl := range w.st.workloads {
			if wl.Nodename == n {
				sum += vAmount(wl.Resources)
			}
		}
		vAssert("C10,C11,C12/usage-equals-sum-of-recorded-workloads", w.usage[n] == sum)
		if okCount == 0 {
			vAssert("C11/failed-create-leaves-no-usage", w.usage[n] == 0)
		}
		vAssert("C11/create-places-within-reported-capacity", perNode[n] <= vConcrete(w.slots[n]))
	}
	for n := range w.processing {
		// (only the marker whose own deletion was the injected store failure may stay)
		vAssert("C12/no-in-progress-marker-remains", w.delRefused[n])
	}
	vAssert("C20/everything-released", len(w.st.held) == 0)
}

func init() { vRegisterP("VerifCreateOp", VerifCreateOp) }

// vRmgr.GetNodeResourceInfo with repair (used by the resource WAL handler).
func vRepairUsage(w *vWorld, node string, workloads []*types.Workload) {
	sum := 0
	for _, wl := range workloads {
		sum += vAmount(wl.Resources)
	}
	w.usage[node] = sum
}

// VerifCrashRecovery (C14): the core process stops at a symbolic point of a
// deployment; a new core instance sharing the store, the resource records, the
// engine and the log runs recovery.  arg: crash=<max crash position>,count=
func VerifCrashRecovery(arg string) {
	maxCrash := vParam(arg, "crash", 24)
	maxCount := vParam(arg, "count", 2)
	c, st := vCluster(2, 1)
	w := &vWorld{st: st, usage: map[string]int{}, capacity: map[string]int{}, applied: map[string]int{}, running: map[string]bool{},
		slots: map[string]int{}, processing: map[string]int{}}
	st.w = w
	w.repair = true
	c.rmgr = &vRmgr{w: w}
	lg := &vWAL{w: w}
	c.wal = lg
	vRegisterHandlers(lg, c, st)
	eng := &vEngine{w: w}
	for _, n := range []string{"a", "b"} {
		st.nodes[n].Engine = eng
		w.slots[n] = vInt("slots_"+n, 0, 2)
		// a node named explicitly in the request may be marked bypass
		st.nodes[n].Bypass = vBool("bypass_" + n)
	}
	amount := vInt("amount", 0, 1<<30)
	count := vInt("count", 1, maxCount)
	w.crashMode = true
	w.faultAt = vChoose("crash_at", maxCrash+1) // 0 = no crash

	opts := &types.DeployOptions{
		Name: "app", Podname: "p1", Image: "img", Count: count, DeployStrategy: strategy.Auto, IgnorePull: true,
		Entrypoint: &types.Entrypoint{Name: "entry"},
		NodeFilter: &types.NodeFilter{Podname: "p1", Includes: []string{"a", "b"}},
		Resources:  vRes(amount),
	}
	if ch, err := c.CreateWorkload(context.Background(), opts); err == nil {
		for range ch {
		}
	}
	crashed := w.frozen
	crashSite := w.site
	vObserve("crash_site", crashSite)
	vCover("crashed-mid-deployment", crashed)
	// the container created in the instant before the crash that had not been logged yet
	unlogged := ""
	if crashed && crashSite == "wal.Log" && w.created > 0 {
		last := fmt.Sprintf("c%d", w.created)
		if _, rec := st.workloads[last]; !rec {
			logged := false
			for _, ev := range lg.events {
				if ev.typ == eventWorkloadCreated && !ev.done {
					if wl, err := lg.handlers[eventWorkloadCreated].Decode(ev.item); err == nil && wl.(*types.Workload).ID == last {
						logged = true
					}
				}
			}
			if !logged {
				unlogged = last
			}
		}
	}

	pendingEvents := 0
	for _, ev := range lg.events {
		if !ev.done {
			pendingEvents++
		}
	}
	vObserve("pending_events_at_restart", pendingEvents)
	// ---- a new core instance: same store / resource records / engine / log ----
	w.frozen = false
	w.faultAt = 0
	w.crashMode = false
	st.held = map[string]bool{} // lock leases of the dead process have expired
	c2 := &Calcium{store: st, rmgr: c.rmgr, wal: lg, config: c.config}
	c2.pool = c.pool
	lg.handlers = nil
	vRegisterHandlers(lg, c2, st)
	lg.Recover(context.Background())
	vObserve("recovery_trace", lg.trace)
	vObserve("usage_a_after", w.usage["a"])
	vObserve("usage_b_after", w.usage["b"])
	vObserve("recorded_after", len(st.workloads))
	vObserve("containers_after", len(w.applied))

	// every affected node's usage equals the sum of its recorded workloads
	for _, n := range []string{"a", "b"} {
		sum := 0
		for _, wl := range st.workloads {
			if wl.Nodename == n {
				sum += vAmount(wl.Resources)
			}
		}
		vAssert("C14/usage-equals-sum-of-recorded-workloads-after-recovery", w.usage[n] == sum)
	}
	// no in-progress marker of the interrupted deployment remains
	vAssert("C14/no-in-progress-marker-after-recovery", len(w.processing) == 0)
	// every instance is fully created (recorded and started) or absent from store and engine
	for id, wl := range st.workloads {
		_, has := w.applied[id]
		vAssert("C14/recorded-workload-has-its-container", has)
		vAssert("C14/recorded-workload-is-started", w.running[id])
		_ = wl
	}
	for id := range w.applied {
		_, rec := st.workloads[id]
		vAssert("C14/no-container-without-record", rec || id == unlogged)
	}
	if !crashed {
		vAssert("C14/uninterrupted-deployment-leaves-empty-log", lg.open == 0)
	}
}

func vRegisterHandlers(lg *vWAL, c *Calcium, st *vStore) {
	lg.Register(newCreateWorkloadHandler(c.config, c, st))
	lg.Register(newWorkloadResourceAllocatedHandler(c.config, c, st))
	lg.Register(newProcessingCreatedHandler(c.config, c, st))
}

func init() { vRegisterP("VerifCrashRecovery", VerifCrashRecovery) }
