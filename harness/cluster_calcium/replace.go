package calcium

// C10 / C11 for Calcium.ReplaceWorkload: a failed replace leaves the old
// workload recorded and running; usage always equals the ledger.

import (
	"context"
	"time"

	"github.com/projecteru2/core/types"
)

func (e *vEngine) VirtualizationStop(_ context.Context, id string, _ time.Duration) error {
	defer vGuard()()
	if e.w.fault("engine.VirtualizationStop") {
		return vErrInjected
	}
	e.w.running[id] = false
	return nil
}

// VerifReplaceOp: replace workload w1 (of two recorded on node a).  arg: fault=
func VerifReplaceOp(arg string) {
	c, w, amounts := vMkWorld(2, vParam(arg, "fault", 16))
	lg := &vWAL{w: w}
	c.wal = lg
	opts := &types.ReplaceOptions{
		DeployOptions: types.DeployOptions{Name: "app", Image: "img", IgnorePull: true, Entrypoint: &types.Entrypoint{Name: "entry"}},
		IDs:           []string{"w1"},
	}
	ch, err := c.ReplaceWorkload(context.Background(), opts)
	vAssert("C11/replace-accepted", err == nil)
	if err != nil {
		return
	}
	var msgs []*types.ReplaceWorkloadMessage
	for m := range ch {
		msgs = append(msgs, m)
	}
	vObserve("fault_site", w.site)
	vAssert("C11/replace-reports-once", len(msgs) == 1)
	if len(msgs) != 1 {
		return
	}
	m := msgs[0]
	old, oldRecorded := w.st.workloads["w1"]
	// recorded finding: the new workload is up but removing the old one failed
	vKnown("F-C10-replace-old-not-removed", w.site == "store.RemoveWorkload" || w.site == "engine.VirtualizationRemove")
	vAssert("C10,C11/usage-equals-sum-of-recorded-workloads", w.usage["a"] == vLedgerSum(w))
	if m.Error != nil {
		vCover("replace-failed", true)
		vAssert("C11/failed-replace-keeps-old-workload-recorded", oldRecorded && vAmount(old.Resources) == amounts[0])
		vAssert("C11/failed-replace-keeps-old-workload-running", w.running["w1"])
		vAssert("C11/failed-replace-leaves-no-new-workload", len(w.st.workloads) == 2 && len(w.applied) == 2)
		return
	}
	vCover("replace-ok", true)
	vAssert("C11/replace-removes-old-workload", !oldRecorded)
	vAssert("C11/replace-records-exactly-one-new-workload", len(w.st.workloads) == 2)
	if m.Create != nil {
		nw, ok := w.st.workloads[m.Create.WorkloadID]
		vAssert("C11/replace-new-workload-recorded-with-same-resources", ok && vAmount(nw.Resources) == amounts[0])
		vAssert("C11/replace-new-workload-running", w.running[m.Create.WorkloadID])
	}
	vAssert("C20/everything-released", len(w.st.held) == 0)
}

func init() { vRegisterP("VerifReplaceOp", VerifReplaceOp) }

// VerifReplaceTwo: one call replaces two workloads that live in different pods
// (w1 on node a / pod p1, w2 on node b / pod p2), no pod named in the request.
// arg: fault=<max fault position>
func VerifReplaceTwo(arg string) {
	c, w, amounts := vMkWorldOn(2, vParam(arg, "fault", 0), 2)
	vNoSample() // natively the two per-workload tasks race: which one meets the injected fault is not fixed
	// w2 sits on node b, which belongs to another pod
	w.st.nodes["b"].Podname = "p2"
	w2 := w.st.workloads["w2"]
	if w2.Nodename != "b" {
		vAssume(false)
	}
	w2.Podname = "p2"
	lg := &vWAL{w: w}
	c.wal = lg
	opts := &types.ReplaceOptions{
		DeployOptions: types.DeployOptions{Name: "app", Image: "img", IgnorePull: true, Entrypoint: &types.Entrypoint{Name: "entry"}},
		IDs:           []string{"w1", "w2"},
	}
	ch, err := c.ReplaceWorkload(context.Background(), opts)
	vAssert("C11/replace-accepted", err == nil)
	if err != nil {
		return
	}
	byOld := map[string]*types.ReplaceWorkloadMessage{}
	n := 0
	for m := range ch {
		n++
		if m.Remove != nil {
			byOld[m.Remove.WorkloadID] = m
		}
	}
	vObserve("fault_site", w.site)
	vKnown("F-C10-replace-old-not-removed", w.site == "store.RemoveWorkload" || w.site == "engine.VirtualizationRemove")
	// every workload named in the request is reported, once
	vAssert("C11/replace-reports-every-requested-workload", n == 2 && byOld["w1"] != nil && byOld["w2"] != nil)
	for k, id := range []string{"w1", "w2"} {
		m := byOld[id]
		if m == nil {
			continue
		}
		_, oldRecorded := w.st.workloads[id]
		if m.Error != nil {
			vAssert("C11/failed-replace-keeps-old-workload-recorded", oldRecorded)
			vAssert("C11/failed-replace-keeps-old-workload-running", w.running[id])
			continue
		}
		vCover("replaced-in-its-own-pod", true)
		vAssert("C11/replace-removes-old-workload", !oldRecorded)
		if m.Create != nil {
			nw, ok := w.st.workloads[m.Create.WorkloadID]
			vAssert("C11/replace-new-workload-recorded-with-same-resources", ok && vAmount(nw.Resources) == amounts[k])
			if ok {
				vAssert("C11/replace-new-workload-stays-on-its-node-and-pod", nw.Nodename == []string{"a", "b"}[k] && nw.Podname == []string{"p1", "p2"}[k])
			}
		}
	}
	for node := range w.st.nodes {
		vAssert("C10,C11/usage-equals-sum-of-recorded-workloads", w.usage[node] == vLedgerSumOn(w, node))
	}
	vAssert("C20/everything-released", len(w.st.held) == 0)
}

func init() { vRegisterP("VerifReplaceTwo", VerifReplaceTwo) }
