package calcium

// C28 (cluster half): SetNode with WorkloadsDown - what the node-status watcher
// asks for when a node's heartbeat disappears - reports every workload recorded
// on that node as neither running nor healthy, and touches no workload of
// another node.

import (
	"context"

	enginefactory "github.com/projecteru2/core/engine/factory"
	"github.com/projecteru2/core/types"
)

func (s *vStore) SetWorkloadStatus(_ context.Context, st *types.StatusMeta, _ int64) error {
	defer vGuard()()
	if s.w != nil && s.w.fault("store.SetWorkloadStatus") {
		if s.refusedStatus == nil {
			s.refusedStatus = map[string]bool{}
		}
		s.refusedStatus[st.ID] = true
		return vErrInjected
	}
	if s.status == nil {
		s.status = map[string]types.StatusMeta{}
	}
	s.status[st.ID] = *st
	return nil
}

// VerifSetNodeDown. arg: fault=<max fault position>,wl=<workloads>
func VerifSetNodeDown(arg string) {
	nw := vParam(arg, "wl", 3)
	c, w, _ := vMkWorldOn(nw, vParam(arg, "fault", 8), 2)
	for n := range w.st.nodes {
		w.capacity[n] = 1 << 40
	}
	vTheWorld = w
	// the node may be available again (its heartbeat came back) or not when the request arrives
	w.st.nodes["a"].Available = vBool("node_is_available")
	w.st.nodes["a"].Bypass = vBool("node_is_bypassed")
	if vNativeRun {
		// natively the real engine factory runs: give it its cache
		enginefactory.InitEngineCache(context.Background(), c.config, nil)
	}
	// the workloads were last reported running and healthy
	w.st.status = map[string]types.StatusMeta{}
	for id, wl := range w.st.workloads {
		w.st.status[id] = types.StatusMeta{ID: id, Running: true, Healthy: true, Nodename: wl.Nodename}
	}
	_, err := c.SetNode(context.Background(), &types.SetNodeOptions{Nodename: "a", WorkloadsDown: true, Bypass: types.TriKeep})
	vObserve("fault_site", w.site)
	vCover("set-node-down-ok", err == nil)
	for id, wl := range w.st.workloads {
		st := w.st.status[id]
		if wl.Nodename != "a" {
			vCover("workload-on-another-node", true)
			vAssert("C28/workloads-of-other-nodes-are-untouched", st.Running && st.Healthy)
			continue
		}
		if err == nil && !w.st.refusedStatus[id] {
			// (a status write the store refused is a store failure; every other workload is reported)
			vAssert("C28/workload-on-the-failed-node-is-reported-down", !st.Running && !st.Healthy)
			vAssert("C28/status-names-the-workload", st.ID == id && st.Nodename == "a" && st.Appname == "app" && st.Entrypoint == "entry")
		}
	}
	vAssert("C20/everything-released", len(w.st.held) == 0)
}

func init() { vRegisterP("VerifSetNodeDown", VerifSetNodeDown) }
