package calcium

// C30 (single sequential schedule): every workload started by run-and-wait is
// removed once its output ends, its exit code is the last message for that
// workload, its recovery-log entry is committed and the output stream closes.

import (
	"context"
	"fmt"
	"io"
	"time"

	enginetypes "github.com/projecteru2/core/engine/types"
	"github.com/projecteru2/core/strategy"
	"github.com/projecteru2/core/types"
)

// vReader: a log stream that ends at once (the output content is not the subject).
type vReader struct{ closed *int }

func (r vReader) Read([]byte) (int, error) { return 0, io.EOF }
func (r vReader) Close() error             { *r.closed++; return nil }

func (e *vEngine) VirtualizationLogs(context.Context, *enginetypes.VirtualizationLogStreamOptions) (io.ReadCloser, io.ReadCloser, error) {
	defer vGuard()()
	if e.w.fault("engine.VirtualizationLogs") {
		return nil, nil, vErrInjected
	}
	return vReader{&e.w.closedStreams}, vReader{&e.w.closedStreams}, nil
}

func (e *vEngine) VirtualizationWait(_ context.Context, id, _ string) (*enginetypes.VirtualizationWaitResult, error) {
	defer vGuard()()
	if e.w.fault("engine.VirtualizationWait") {
		return nil, vErrInjected
	}
	if e.w.cancelCaller != nil && vBool("caller_gives_up_while_waiting") {
		e.w.cancelCaller() // the client went away: its context ends while the workload is still running
		e.w.cancelCaller = nil
		vCover("caller-gave-up", true)
	}
	return &enginetypes.VirtualizationWaitResult{Code: int64(e.w.exitCode)}, nil
}

// VerifRunAndWait. arg: count=<instances>
func VerifRunAndWait(arg string) {
	maxCount := vParam(arg, "count", 2)
	c, st := vCluster(2, 1)
	w := &vWorld{st: st, usage: map[string]int{}, capacity: map[string]int{}, applied: map[string]int{}, running: map[string]bool{},
		slots: map[string]int{}, processing: map[string]int{}}
	st.w = w
	c.rmgr = &vRmgr{w: w}
	lg := &vWAL{w: w}
	c.wal = lg
	eng := &vEngine{w: w}
	for _, n := range []string{"a", "b"} {
		st.nodes[n].Engine = eng
		w.slots[n] = vInt("slots_"+n, 0, 2)
	}
	amount := vInt("amount", 0, 1<<30)
	count := vInt("count", 1, maxCount)
	w.exitCode = []int{0, 1, 255}[vChoose("exit_code", 3)]
	// engine outcomes for logs and wait: none fails, or the n-th fetch-logs / wait call fails
	w.siteFaults, w.siteCalls = map[string]map[int]bool{}, map[string]int{}
	switch vChoose("failing_engine_call", 3) {
	case 1:
		w.siteFaults["engine.VirtualizationLogs"] = map[int]bool{vChoose("failing_occurrence", maxCount) + 1: true}
	case 2:
		w.siteFaults["engine.VirtualizationWait"] = map[int]bool{vChoose("failing_occurrence", maxCount) + 1: true}
	}
	opts := &types.DeployOptions{
		Name: "app", Podname: "p1", Image: "img", Count: count, DeployStrategy: strategy.Auto, IgnorePull: true,
		Entrypoint: &types.Entrypoint{Name: "entry"},
		NodeFilter: &types.NodeFilter{Podname: "p1", Includes: []string{"a", "b"}},
		Resources:  vRes(amount),
	}
	ctx, cancel := context.WithCancel(context.Background())
	defer cancel()
	if vParam(arg, "cancel", 0) == 1 {
		w.cancelCaller = cancel
	}
	ids, ch, err := c.RunAndWait(ctx, opts, nil)
	vAssert("C30/run-and-wait-accepted", err == nil && ch != nil)
	if err != nil {
		return
	}
	last := map[string]*types.AttachWorkloadMessage{}
	n := 0
	if !vIsSymbolic() {
		time.Sleep(20 * time.Millisecond) // natively: the reader is not waiting yet when the first messages are sent
	}
	for m := range ch { // the output stream always closes (a block here is a hang violation)
		n++
		last[m.WorkloadID] = m
		if !vIsSymbolic() {
			time.Sleep(2 * time.Millisecond) // natively: a reader that is not always waiting (the symbolic schedules include that)
		}
	}
	vObserve("messages", n)
	vObserve("fault_site", w.site)
	started := 0
	for _, id := range ids {
		if id == "" {
			continue
		}
		started++
		_, recorded := st.workloads[id]
		_, hasContainer := w.applied[id]
		vAssert("C30/workload-record-removed", !recorded)
		vAssert("C30/container-removed", !hasContainer)
		m := last[id]
		vAssert("C30/every-workload-gets-a-final-message", m != nil)
		if m != nil && m.StdStreamType != types.EruError {
			vCover("exit-code-reported", true)
			vAssert("C30/exit-code-is-the-last-message", string(m.Data) == fmt.Sprintf("%s%d", exitDataPrefix, w.exitCode))
		}
	}
	vCover("some-workload-started", started > 0)
	vCover("logs-or-wait-failed", w.site != "")
	for _, node := range []string{"a", "b"} {
		vAssert("C30/resource-usage-released", w.usage[node] == 0)
	}
	vAssert("C30/recovery-log-entries-committed", lg.open == 0)
	vAssert("C30/nothing-left-recorded", len(st.workloads) == 0 && len(w.applied) == 0)
}

func init() { vRegisterP("VerifRunAndWait", VerifRunAndWait) }

// VerifLambdaRecovery (C14 for run-and-wait deployments): the core process stops
// at a symbolic point of RunAndWait; a new instance runs recovery with all four
// WAL handlers.  Every workload whose create-lambda entry was still uncommitted
// must be removed again (record, container, usage) whatever its exit code, and
// every node's usage equals the sum of its recorded workloads.
// The crash point is "the n-th call of site S" (stable under native goroutine orders).
// arg: occ=<max occurrence>,count=
func VerifLambdaRecovery(arg string) {
	maxOcc := vParam(arg, "occ", 4)
	maxCount := vParam(arg, "count", 1)
	c, st := vCluster(2, 1)
	w := &vWorld{st: st, usage: map[string]int{}, capacity: map[string]int{}, applied: map[string]int{}, running: map[string]bool{},
		slots: map[string]int{}, processing: map[string]int{}}
	st.w = w
	w.repair = true
	c.rmgr = &vRmgr{w: w}
	lg := &vWAL{w: w}
	c.wal = lg
	vRegisterHandlers(lg, c, st)
	lg.Register(newCreateLambdaHandler(c.config, c, st))
	eng := &vEngine{w: w}
	for _, n := range []string{"a", "b"} {
		st.nodes[n].Engine = eng
		w.slots[n] = vInt("slots_"+n, 0, 2)
	}
	amount := vInt("amount", 0, 1<<30)
	count := vInt("count", 1, maxCount)
	w.exitCode = []int{0, 1, 255}[vChoose("exit_code", 3)]
	w.crashMode = true
	sites := []string{"", "wal.Log", "rmgr.Alloc", "store.CreateProcessing", "engine.VirtualizationCreate", "store.AddWorkload", "engine.VirtualizationStart",
		"engine.VirtualizationInspect", "store.DeleteProcessing", "store.GetWorkloads", "engine.VirtualizationLogs", "engine.VirtualizationWait", "rmgr.SetNodeResourceUsage"}
	w.siteFaults, w.siteCalls = map[string]map[int]bool{}, map[string]int{}
	if site := sites[vChoose("crash_site", len(sites))]; site != "" { // "": no crash
		w.siteFaults[site] = map[int]bool{vChoose("crash_occurrence", maxOcc) + 1: true}
	}
	opts := &types.DeployOptions{
		Name: "app", Podname: "p1", Image: "img", Count: count, DeployStrategy: strategy.Auto, IgnorePull: true,
		Entrypoint: &types.Entrypoint{Name: "entry"},
		NodeFilter: &types.NodeFilter{Podname: "p1", Includes: []string{"a", "b"}},
		Resources:  vRes(amount),
	}
	if _, ch, err := c.RunAndWait(context.Background(), opts, nil); err == nil {
		for range ch {
		}
	}
	vDrain()
	crashed := w.frozen
	vObserve("crash_site", w.site)
	vCover("crashed-mid-run-and-wait", crashed)
	var pending []string // lambda workloads logged and not committed when the process died
	for _, ev := range lg.events {
		if !ev.done && ev.typ == eventCreateLambda {
			pending = append(pending, string(ev.item))
		}
	}
	vCover("lambda-entry-pending-at-restart", len(pending) > 0)
	// a crash inside the REMOVAL of a finished lambda (record gone, container not yet) is a crash of
	// a removal, not of a deployment: outside C14's statement
	removing := w.removalBegan
	// ---- a new core instance ----
	w.frozen, w.faultAt, w.crashMode, w.siteFaults = false, 0, false, nil
	st.held = map[string]bool{}
	c2 := &Calcium{store: st, rmgr: c.rmgr, wal: lg, config: c.config}
	c2.pool = c.pool
	lg.handlers = nil
	vRegisterHandlers(lg, c2, st)
	lg.Register(newCreateLambdaHandler(c.config, c2, st))
	lg.Recover(context.Background())
	vDrain()
	if !vIsSymbolic() {
		time.Sleep(50 * time.Millisecond)
	}
	vObserve("recovery_trace", lg.trace)
	for _, id := range pending {
		if removing {
			continue
		}
		_, recorded := st.workloads[id]
		_, has := w.applied[id]
		vAssert("C14/recovered-lambda-record-removed", !recorded)
		vAssert("C14/recovered-lambda-container-removed", !has)
	}
	for _, n := range []string{"a", "b"} {
		vAssert("C14/usage-equals-sum-of-recorded-workloads-after-recovery", w.usage[n] == vLedgerSumOn(w, n))
	}
	vAssert("C14/no-in-progress-marker-after-recovery", len(w.processing) == 0)
}

func init() { vRegisterP("VerifLambdaRecovery", VerifLambdaRecovery) }
