package calcium

// Harness models for the cluster layer: a store that serves nodes/workloads of
// a small universe and hands out recording locks.

import (
	"context"
	"errors"
	"fmt"
	"sort"
	"sync"
	"time"

	"github.com/panjf2000/ants/v2"
	"github.com/projecteru2/core/lock"
	"github.com/projecteru2/core/store"
	"github.com/projecteru2/core/types"
	"github.com/projecteru2/core/utils"
)

//verif:zeropkg github.com/panjf2000/ants/v2

// vRandomString replaces crypto/rand based names by a counter (uniqueness is all that matters).
//
//verif:stub github.com/projecteru2/core/utils.RandomString
func vRandomString(n int) string {
	vRandN++
	return fmt.Sprintf("r%d", vRandN)
}

var vRandN int

// vPoolInvoke: under gosym a pool task is a goroutine like any other: it runs to
// completion at the Invoke call (eager schedule) or is queued until the caller
// blocks (lazy schedule); natively the real ants pool runs it.
//
//verif:stub (*github.com/panjf2000/ants/v2.PoolWithFunc).Invoke
func vPoolInvoke(_ *ants.PoolWithFunc, task interface{}) error {
	if f, ok := task.(func()); ok {
		go func() {
			// like an ants worker: a panicking task is logged and dropped, the process lives on
			defer func() {
				if r := recover(); r != nil {
					vPoolPanics++
				}
			}()
			f()
		}()
	}
	return nil
}

var vPoolPanics int

type vStore struct {
	store.Store
	nodes                 map[string]*types.Node
	podOrder              []string // order in which GetNodesByPod returns the pod's nodes
	workloads             map[string]*types.Workload
	trace                 []string // lock events: "L:<key>", "U:<key>"
	held                  map[string]bool
	getNodeN              int
	lockCalls, lockFailAt int                         // the lockFailAt-th acquisition fails (0: none)
	w                     *vWorld                     // fault injection / ledger (nil in the pure selection harnesses)
	blocking              bool                        // locks really exclude each other (concurrent harnesses)
	status                map[string]types.StatusMeta // workload id -> last status reported to the store
	refusedStatus         map[string]bool             // status writes that were the injected store failure
}

type vLock struct {
	key string
	st  *vStore
}

func (l *vLock) Lock(ctx context.Context) (context.Context, error) {
	vYield()
	if l.st.blocking {
		// concurrent harnesses: a real lock - wait until the key is free
		for {
			vBlockUntil(func() bool { // (a pure test: the scheduler may evaluate it any number of times)
				vMu.Lock()
				defer vMu.Unlock()
				return !l.st.held[l.key]
			})
			vMu.Lock()
			if !l.st.held[l.key] { // natively another goroutine may have been faster
				l.st.held[l.key] = true
				l.st.trace = append(l.st.trace, "L:"+l.key)
				vMu.Unlock()
				return ctx, nil
			}
			vMu.Unlock()
		}
	}
	l.st.lockCalls++
	if l.st.lockCalls == l.st.lockFailAt {
		return ctx, vErrLock
	}
	l.st.trace = append(l.st.trace, "L:"+l.key)
	l.st.held[l.key] = true
	return ctx, nil
}
func (l *vLock) TryLock(ctx context.Context) (context.Context, error) { return l.Lock(ctx) }
func (l *vLock) Unlock(context.Context) error {
	vYield()
	vMu.Lock()
	defer vMu.Unlock()
	l.st.trace = append(l.st.trace, "U:"+l.key)
	delete(l.st.held, l.key)
	return nil
}

// vMu makes the model's methods atomic in native replays, where pool tasks are
// real goroutines (under gosym's cooperative scheduler they are atomic anyway);
// vGuard is also the scheduling point in front of every external call.
var vMu sync.Mutex

func vGuard() func() {
	vYield()
	vMu.Lock()
	return vMu.Unlock
}

func (s *vStore) CreateLock(key string, _ time.Duration) (lock.DistributedLock, error) {
	return &vLock{key: key, st: s}, nil
}

func (s *vStore) GetNode(_ context.Context, name string) (*types.Node, error) {
	defer vGuard()()
	s.getNodeN++
	if s.w != nil && s.w.fault("store.GetNode") {
		return nil, vErrInjected
	}
	if n, ok := s.nodes[name]; ok {
		cp := *n
		return &cp, nil
	}
	return nil, types.ErrNodeNotExists
}

func (s *vStore) GetNodesByPod(_ context.Context, f *types.NodeFilter, _ ...store.Option) ([]*types.Node, error) {
	defer vGuard()()
	var out []*types.Node
	for _, name := range s.podOrder {
		n := s.nodes[name]
		if f.Podname != "" && n.Podname != f.Podname {
			continue
		}
		cp := *n
		out = append(out, &cp)
	}
	return out, nil
}

// ListNodeWorkloads serves RemoveNode's emptiness check (and the skipped remap).
func (s *vStore) ListNodeWorkloads(_ context.Context, node string, _ map[string]string) ([]*types.Workload, error) {
	defer vGuard()()
	var ids []string
	for id, wl := range s.workloads {
		if wl.Nodename == node {
			ids = append(ids, id)
		}
	}
	sort.Strings(ids)
	var out []*types.Workload
	for _, id := range ids {
		out = append(out, s.workloads[id])
	}
	return out, nil
}

func (s *vStore) GetWorkloads(ctx context.Context, ids []string) ([]*types.Workload, error) {
	defer vGuard()()
	if err := ctx.Err(); err != nil {
		return nil, err // like a real client: a request under a dead context fails
	}
	if s.w != nil && s.w.fault("store.GetWorkloads") {
		return nil, vErrInjected
	}
	var out []*types.Workload
	for _, id := range ids {
		w, ok := s.workloads[id]
		if !ok {
			return nil, types.ErrWorkloadNotExists
		}
		cp := *w
		out = append(out, &cp)
	}
	return out, nil
}

var vErrLock = errors.New("lock not acquired")

var vNodeNames = []string{"a", "b", "c", "d"}

// vCluster: nodes a..(n) spread over pods by a symbolic assignment.
func vCluster(n, pods int) (*Calcium, *vStore) {
	st := &vStore{nodes: map[string]*types.Node{}, workloads: map[string]*types.Workload{}, held: map[string]bool{}}
	podNames := []string{"p1", "p2", "p3"}
	for i := 0; i < n; i++ {
		pod := podNames[0]
		if pods > 1 {
			pod = podNames[vChoose("pod_of_"+vNodeNames[i], pods)]
		}
		st.nodes[vNodeNames[i]] = &types.Node{NodeMeta: types.NodeMeta{Name: vNodeNames[i], Podname: pod}}
	}
	c := &Calcium{store: st}
	c.pool, _ = utils.NewPool(20)
	c.config.LockTimeout = time.Minute
	c.config.GlobalTimeout = time.Minute
	return c, st
}

// vPermutation returns a symbolic permutation of names[:n].
func vPermutation(tag string, names []string, n int) []string {
	left := append([]string{}, names[:n]...)
	var out []string
	for len(left) > 1 {
		k := vChoose(tag+"_"+string(rune('0'+len(left))), len(left))
		out = append(out, left[k])
		left = append(left[:k], left[k+1:]...)
	}
	return append(out, left...)
}
