package calcium

// C13 (calcium half, single sequential schedule): the deploy status the store
// reports for a node - recorded workloads plus the in-progress marker - stays
// within [recorded, prior + planned] at every intercepted step of a deployment
// and equals the recorded workloads, with no marker left, once it has returned.

import (
	"context"
	"fmt"

	"github.com/projecteru2/core/strategy"
	"github.com/projecteru2/core/types"
)

// VerifDeployStatus. arg: fault=<max position of the single fault>,count=<max instances>,slots=<max per node>
func VerifDeployStatus(arg string) {
	maxFault := vParam(arg, "fault", 24)
	maxCount := vParam(arg, "count", 2)
	maxSlots := vParam(arg, "slots", 2)
	c, st := vCluster(2, 1)
	w := &vWorld{st: st, usage: map[string]int{}, capacity: map[string]int{}, applied: map[string]int{}, running: map[string]bool{},
		slots: map[string]int{}, processing: map[string]int{}}
	st.w = w
	w.countStatus = true
	// instances planned per node = what the deployment allocates resources for
	// (rmgr.Alloc's count, an argument independent of the marker's)
	w.planned = map[string]int{}
	planned := w.planned
	c.rmgr = &vRmgr{w: w}
	lg := &vWAL{w: w}
	c.wal = lg
	eng := &vEngine{w: w}
	amount := vInt("amount", 0, 1<<30)
	nodes := []string{"a", "b"}
	prior := map[string]int{}
	for _, n := range nodes {
		st.nodes[n].Engine = eng
		w.slots[n] = vInt("slots_"+n, 0, maxSlots)
		// workloads of the same application entrypoint deployed earlier
		prior[n] = vChoose("prior_on_"+n, 3)
		for k := 0; k < prior[n]; k++ {
			id := fmt.Sprintf("old-%s-%d", n, k)
			st.workloads[id] = &types.Workload{ID: id, Name: "app_entry_" + id, Nodename: n, Podname: "p1", Resources: vRes(amount), EngineParams: vRes(amount), Engine: eng}
			w.applied[id] = amount
			w.running[id] = true
			w.usage[n] += amount
		}
	}
	count := vInt("count", 1, maxCount)
	w.faultAt = vChoose("fault_at", maxFault+1)

	// observer: at every intercepted step the reported count is at least the
	// recorded workloads; its maximum is compared with prior + planned afterwards
	maxSeen := map[string]int{}
	belowRecorded := false

	w.onStep = func() {

		for _, n := range nodes {
			k := vDeployCount(w, n)
			if k > maxSeen[n] {
				maxSeen[n] = k
			}
			if w.processing[n] < 0 {
				belowRecorded = true
			}
		}
	}

	opts := &types.DeployOptions{
		Name: "app", Podname: "p1", Image: "img", Count: count, DeployStrategy: strategy.Auto, IgnorePull: true,
		Entrypoint: &types.Entrypoint{Name: "entry"},
		NodeFilter: &types.NodeFilter{Podname: "p1", Includes: []string{"a", "b"}},
		Resources:  vRes(amount),
	}
	ch, err := c.CreateWorkload(context.Background(), opts)
	if err != nil {
		return
	}
	okCount := 0
	for m := range ch {
		if m.Error == nil {
			okCount++
		}
	}
	w.onStep()
	vObserve("fault_site", w.site)
	vCover("deployment-creates-something", okCount > 0)
	vCover("deployment-fails-part-way", okCount > 0 && okCount < vConcrete(count))
	vAssert("C13/count-never-below-recorded-workloads", !belowRecorded)
	// the counts the store reports feed the strategy: with the status of THIS application
	// entrypoint AUTO evens the totals out (C03's rule, observed end to end when nothing failed)
	if w.site == "" && okCount == vConcrete(count) {
		total := map[string]int{}
		for _, n := range nodes {
			total[n] = prior[n] + planned[n]
		}
		for _, x := range nodes {
			for _, y := range nodes {
				if x != y && planned[x] > 0 && planned[y] < vConcrete(w.slots[y]) {
					vAssert("C13/deploy-status-reaches-the-strategy", total[x] <= total[y]+1)
				}
			}
		}
	}
	for _, n := range nodes {
		vObserve("max_seen_"+n, maxSeen[n])
		vAssert("C13/count-never-exceeds-prior-plus-planned", maxSeen[n] <= prior[n]+planned[n])
		recorded := 0
		for _, wl := range st.workloads {
			if wl.Nodename == n {
				recorded++
			}
		}
		if !w.delRefused[n] {
			// (a marker whose own deletion was the injected store failure stays by construction)
			_, marker := w.processing[n]
			vAssert("C13/no-in-progress-marker-after-return", !marker)
			vAssert("C13/count-equals-recorded-workloads-after-return", vDeployCount(w, n) == recorded)
		}
	}
}

func init() { vRegisterP("VerifDeployStatus", VerifDeployStatus) }
