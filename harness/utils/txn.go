package utils

// C17: the transaction helper rolls back exactly when a step failed.

import (
	"context"
	"errors"
	"time"
)

var (
	vErrCond     = errors.New("cond failed")
	vErrThen     = errors.New("then failed")
	vErrRollback = errors.New("rollback failed")
)

// VerifTxn: every combination of step outcomes (cond ok/fail, then
// absent/ok/fail, rollback absent/ok/fail) with the caller cancelling its
// context at a symbolic point.
func VerifTxn() {
	condOK := vBool("cond_ok")
	thenPresent := vBool("then_present")
	thenOK := vBool("then_ok")
	rbPresent := vBool("rollback_present")
	rbOK := vBool("rollback_ok")
	// 0 never, 1 before the call, 2 inside cond, 3 inside then, 4 at the start of rollback
	cancelAt := vChoose("cancel_at", 5)

	ctx, cancel := context.WithCancel(context.WithValue(context.Background(), vCtxKey{}, "tag"))
	defer cancel()
	condRuns, thenRuns, rbRuns := 0, 0, 0
	rbFlag := false
	rbCtxLive := true
	rbInherits := true
	stepSawCancel := false
	order := ""

	cond := func(c context.Context) error {
		condRuns++
		order += "c"
		if cancelAt == 2 {
			cancel()
			stepSawCancel = c.Err() != nil
		}
		if condOK {
			return nil
		}
		return vErrCond
	}
	var then func(context.Context) error
	if thenPresent {
		then = func(c context.Context) error {
			thenRuns++
			order += "t"
			if cancelAt == 3 {
				cancel()
			}
			if thenOK {
				return nil
			}
			return vErrThen
		}
	}
	var rollback func(context.Context, bool) error
	if rbPresent {
		rollback = func(c context.Context, failureByCond bool) error {
			rbRuns++
			order += "r"
			rbFlag = failureByCond
			if cancelAt == 4 {
				cancel()
			}
			// the caller's cancellation (whenever it happened) must not reach this context
			if cancelAt != 0 {
				cancel()
			}
			rbCtxLive = c.Err() == nil
			_ = rbInherits
			if rbOK {
				return nil
			}
			return vErrRollback
		}
	}
	if cancelAt == 1 {
		cancel()
	}

	err := Txn(ctx, cond, then, rollback, time.Hour)

	failed := !condOK || (thenPresent && !thenOK)
	vCover("rolled-back", rbRuns == 1)
	vCover("committed", err == nil)
	vCover("step-context-observes-caller-cancel", stepSawCancel)
	vAssert("C17/cond-runs-once", condRuns == 1)
	vAssert("C17/then-runs-iff-cond-succeeded", thenRuns == vIte(condOK && thenPresent, 1, 0))
	vAssert("C17/rollback-exactly-once-iff-a-step-failed", rbRuns == vIte(failed && rbPresent, 1, 0))
	if rbRuns == 1 {
		vAssert("C17/rollback-told-whether-cond-failed", rbFlag == !condOK)
		vAssert("C17/rollback-runs-last", order[len(order)-1] == 'r')
		vAssert("C17/rollback-context-not-interrupted-by-caller", rbCtxLive)
	}
	switch {
	case !condOK:
		vAssert("C17/returns-first-failure", err == vErrCond)
	case thenPresent && !thenOK:
		vAssert("C17/returns-first-failure", err == vErrThen)
	default:
		vAssert("C17/returns-first-failure", err == nil)
	}
}

type vCtxKey struct{}

// VerifPCR: prepare/commit/rollback rolls back only when the commit step fails.
func VerifPCR() {
	prepOK := vBool("prepare_ok")
	commitOK := vBool("commit_ok")
	rbOK := vBool("rollback_ok")
	prepRuns, commitRuns, rbRuns := 0, 0, 0
	err := PCR(context.Background(),
		func(context.Context) error {
			prepRuns++
			if prepOK {
				return nil
			}
			return vErrCond
		},
		func(context.Context) error {
			commitRuns++
			if commitOK {
				return nil
			}
			return vErrThen
		},
		func(context.Context) error {
			rbRuns++
			if rbOK {
				return nil
			}
			return vErrRollback
		}, time.Hour)
	vCover("pcr-rolled-back", rbRuns == 1)
	vAssert("C17/pcr-prepare-once", prepRuns == 1)
	vAssert("C17/pcr-commit-iff-prepared", commitRuns == vIte(prepOK, 1, 0))
	vAssert("C17/pcr-rollback-iff-commit-failed", rbRuns == vIte(prepOK && !commitOK, 1, 0))
	switch {
	case !prepOK:
		vAssert("C17/pcr-returns-first-failure", err == vErrCond)
	case !commitOK:
		vAssert("C17/pcr-returns-first-failure", err == vErrThen)
	default:
		vAssert("C17/pcr-returns-first-failure", err == nil)
	}
}

func init() {
	vRegister("VerifTxn", VerifTxn)
	vRegister("VerifPCR", VerifPCR)
}
