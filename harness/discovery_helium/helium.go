package helium

// C27: service discovery subscribers converge to the registered set, and
// unsubscribing always completes and closes the subscriber's channel.
//
// The real Helium (start loop, dispatch, Subscribe, Unsubscribe) runs under
// gosym's cooperative scheduler with Go's channel semantics (unbuffered
// channels are rendezvous points, select takes the first ready case).  The
// store's watch stream and the push-interval ticker are channels the harness
// feeds: the environment's events - registrations change, the interval elapses,
// a subscriber's context ends, a subscriber unsubscribes - form a SYMBOLIC
// sequence.  Subscribers either read promptly (a goroutine draining the
// channel) or are slow (do not read during the scenario).

import (
	"context"
	"time"

	"github.com/google/uuid"

	"github.com/projecteru2/core/store"
	"github.com/projecteru2/core/types"
)

//verif:zerofn (*time.Ticker).Stop

type vStore struct {
	store.Store
	watch chan []string
}

func (s *vStore) ServiceStatusStream(context.Context) (chan []string, error) { return s.watch, nil }

var vTick chan time.Time

// vNewTicker: the push interval as a channel the harness feeds.
//
//verif:stub time.NewTicker
func vNewTicker(time.Duration) *time.Ticker {
	return &time.Ticker{C: vTick}
}

var vUUIDn byte

// vUUID replaces the random id by a counter (distinctness is all that matters).
//
//verif:stub github.com/google/uuid.New
func vUUID() uuid.UUID {
	vUUIDn++
	return uuid.UUID{0, 0, 0, vUUIDn}
}

type vSub struct {
	id     uuid.UUID
	ch     <-chan types.ServiceStatus
	cancel context.CancelFunc
	slow   bool
	got    int // number of statuses received
	last   []string
	closed bool // the reader saw the channel closed
	unsub  bool
	ended  bool // its context has ended
}

func vSame(a, b []string) bool {
	if len(a) != len(b) {
		return false
	}
	for i := range a {
		if a[i] != b[i] {
			return false
		}
	}
	return true
}

// VerifHelium. arg: subs=<subscribers>,steps=<events>,slow=<1: subscribers may be slow>
func VerifHelium(arg string) {
	nSubs := vParam(arg, "subs", 2)
	steps := vParam(arg, "steps", 3)
	maySlow := vParam(arg, "slow", 0) == 1
	vNoSample() // natively the interval is real time and the map order random: completed paths are not compared
	st := &vStore{watch: make(chan []string, steps+1)}
	vTick = make(chan time.Time, 1)
	h := New(context.Background(), types.GRPCConfig{ServiceDiscoveryPushInterval: time.Second}, st)

	subs := make([]*vSub, nSubs)
	for k := range subs {
		ctx, cancel := context.WithCancel(context.Background())
		s := &vSub{cancel: cancel}
		s.id, s.ch = h.Subscribe(ctx)
		if maySlow {
			s.slow = vBool("subscriber_" + string(rune('a'+k)) + "_is_slow")
		}
		subs[k] = s
		if !s.slow {
			go func() { // a subscriber that reads promptly
				for m := range s.ch {
					s.got++
					s.last = m.Addresses
				}
				s.closed = true
			}()
		}
	}
	sets := [][]string{{"core-1"}, {"core-1", "core-2"}, {}, {"core-3"}, {"core-1", "core-3"}} // incl. sets of equal size and different content
	var latest []string
	pushed := false
	for step := 0; step < steps; step++ {
		ev := vChoose("event_"+string(rune('1'+step)), 4)
		who := 0
		if ev >= 2 && nSubs > 1 {
			who = vChoose("subscriber_of_event_"+string(rune('1'+step)), nSubs)
		}
		converge := false
		// recorded finding: a subscriber that does not read (and whose context is still
		// live) blocks the dispatcher - and with it every other subscriber and Unsubscribe
		for _, s := range subs {
			if s.slow && !s.ended && !s.unsub {
				vKnown("F-C27-slow-subscriber-blocks-dispatch", true)
			}
		}
		switch ev {
		case 0: // registrations change
			latest = sets[vChoose("registered_set_"+string(rune('1'+step)), len(sets))]
			st.watch <- latest
			pushed, converge = true, true
		case 1: // the push interval elapses
			if vIsSymbolic() {
				select {
				case vTick <- time.Time{}:
				default:
				}
			} else {
				time.Sleep(1100 * time.Millisecond) // natively: the real one-second ticker
			}
			converge = pushed
		case 2: // the subscriber's context ends (its stream is gone)
			subs[who].cancel()
			subs[who].ended = true
		case 3: // unsubscribe (the cluster layer does this once the context has ended)
			if subs[who].unsub {
				continue
			}
			subs[who].cancel()
			subs[who].ended = true
			h.Unsubscribe(subs[who].id) // must complete: a block here ends the path as a hang
			subs[who].unsub = true
			vCover("unsubscribed", true)
		}
		vDrain() // let the dispatcher and the readers run until everybody is idle
		for _, s := range subs {
			if s.slow {
				continue
			}
			if s.unsub {
				vAssert("C27/unsubscribe-closes-the-channel", s.closed)
				continue
			}
			if converge && !s.ended {
				vCover("live-subscriber-updated", true)
				vAssert("C27/live-subscriber-has-the-registered-set", s.got > 0 && vSame(s.last, latest))
			}
		}
	}
}

func init() { vRegisterP("VerifHelium", VerifHelium) }
