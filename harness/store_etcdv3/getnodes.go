package etcdv3

// C21 (store half, etcd backend): pod-based selection returns exactly the pod's
// nodes that carry the requested labels, each once, and skips nodes that are
// down (no live status key) or bypassed unless all nodes were requested.
//
// The real Mercury.GetNodesByPod -> doGetNodes (JSON decode, utils.LabelsFilter,
// the pool tasks with GetNodeStatus / Node.IsDown, wait group, result channel)
// runs under gosym's scheduler over a model of the meta.KV interface that serves
// the pod's node records and the node status keys.  Every node's labels, test
// flag, bypass flag and status-key state are symbolic, and so is the filter.

import (
	"context"
	"encoding/json"
	"errors"
	"fmt"
	"strings"
	"sync"

	"github.com/panjf2000/ants/v2"
	"go.etcd.io/etcd/api/v3/mvccpb"
	clientv3 "go.etcd.io/etcd/client/v3"

	"github.com/projecteru2/core/engine"
	enginefactory "github.com/projecteru2/core/engine/factory"
	"github.com/projecteru2/core/store"
	"github.com/projecteru2/core/store/etcdv3/meta"
	"github.com/projecteru2/core/types"
	"github.com/projecteru2/core/utils"
)

//verif:zeropkg github.com/panjf2000/ants/v2

// vPoolInvoke: a pool task is a goroutine like any other (see cluster_calcium/model.go).
//
//verif:stub (*github.com/panjf2000/ants/v2.PoolWithFunc).Invoke
func vPoolInvoke(_ *ants.PoolWithFunc, task interface{}) error {
	if f, ok := task.(func()); ok {
		go f()
	}
	return nil
}

var vErrStatusStore = errors.New("verif: status read failed")

// vKV: the part of meta.KV that node selection uses.
type vKV struct {
	meta.KV
	mu      sync.Mutex
	pod     string
	records []*mvccpb.KeyValue // the pod's node records, in the store's order
	status  map[string]int     // node -> 0: no status key, 1: live status key, 2: the read fails
	reads   map[string]int
	podKeys map[string]bool // pod records
}

func (k *vKV) Delete(_ context.Context, key string, _ ...clientv3.OpOption) (*clientv3.DeleteResponse, error) {
	k.mu.Lock()
	defer k.mu.Unlock()
	if k.podKeys[key] {
		delete(k.podKeys, key)
		return &clientv3.DeleteResponse{Deleted: 1}, nil
	}
	return &clientv3.DeleteResponse{}, nil
}

var vErrNoEngine = errors.New("verif: engine not reachable")

// Under gosym no engine is reachable (RemovePod only counts the nodes); natively
// the real factory serves the mock:// endpoints.
//
//verif:stub github.com/projecteru2/core/engine/factory.GetEngineFromCache
func vGetEngineFromCache(_ context.Context, _, _, _, _ string) engine.API { return nil }

//verif:stub github.com/projecteru2/core/engine/factory.GetEngine
func vGetEngine(_ context.Context, _ types.Config, _, _, _, _, _ string) (engine.API, error) {
	return nil, vErrNoEngine
}

func (k *vKV) Get(_ context.Context, key string, _ ...clientv3.OpOption) (*clientv3.GetResponse, error) {
	k.mu.Lock()
	defer k.mu.Unlock()
	if key == fmt.Sprintf(nodePodKey, k.pod, "") {
		return &clientv3.GetResponse{Kvs: k.records, Count: int64(len(k.records))}, nil
	}
	return &clientv3.GetResponse{}, nil
}

func (k *vKV) GetOne(_ context.Context, key string, _ ...clientv3.OpOption) (*mvccpb.KeyValue, error) {
	k.mu.Lock()
	defer k.mu.Unlock()
	if strings.HasPrefix(key, nodeStatusPrefix) {
		name := key[len(nodeStatusPrefix):]
		k.reads[name]++
		switch k.status[name] {
		case 1:
			b, _ := json.Marshal(&types.NodeStatus{Nodename: name, Podname: k.pod, Alive: true})
			return &mvccpb.KeyValue{Key: []byte(key), Value: b}, nil
		case 2:
			return nil, vErrStatusStore
		}
	}
	return nil, types.ErrInvaildCount
}

var vZoneValues = []string{"", "x", "y"}

// VerifGetNodes.  Parameters: n (nodes in the pod, default 2).
func VerifGetNodes(arg string) {
	n := vParam(arg, "n", 2)
	names := []string{"na", "nb", "nc", "nd"}[:n]
	kv := &vKV{pod: "p", status: map[string]int{}, reads: map[string]int{}}
	type nodeSpec struct {
		zone, rack   int
		test, bypass bool
		status       int
	}
	specs := make([]nodeSpec, n)
	for i, name := range names {
		s := nodeSpec{
			zone:   vChoose(fmt.Sprintf("node%d_zone_label", i), 3), // 0: label absent
			rack:   vChoose(fmt.Sprintf("node%d_rack_label", i), 2), // 0: absent, 1: "r"
			test:   vBool(fmt.Sprintf("node%d_test", i)),
			bypass: vBool(fmt.Sprintf("node%d_bypass", i)),
			status: vChoose(fmt.Sprintf("node%d_status_key", i), 3),
		}
		specs[i] = s
		labels := map[string]string{}
		if s.zone > 0 {
			labels["zone"] = vZoneValues[s.zone]
		}
		if s.rack > 0 {
			labels["rack"] = "r"
		}
		node := &types.Node{NodeMeta: types.NodeMeta{Name: name, Podname: "p", Endpoint: "mock://" + name, Labels: labels}, Bypass: s.bypass, Test: s.test}
		b, err := json.Marshal(node)
		vAssume(err == nil)
		kv.records = append(kv.records, &mvccpb.KeyValue{Key: []byte(fmt.Sprintf(nodePodKey, "p", name)), Value: b})
		kv.status[name] = s.status
	}
	// the filter
	fzone := vChoose("filter_zone_label", 3)
	frack := vChoose("filter_rack_label", 2)
	all := vBool("filter_all")
	var flabels map[string]string
	if fzone > 0 || frack > 0 {
		flabels = map[string]string{}
		if fzone > 0 {
			flabels["zone"] = vZoneValues[fzone]
		}
		if frack > 0 {
			flabels["rack"] = "r"
		}
	}
	pool, _ := utils.NewPool(8)
	m := &Mercury{KV: kv, pool: pool}
	nodes, err := m.GetNodesByPod(context.Background(), &types.NodeFilter{Podname: "p", Labels: flabels, All: all}, store.WithoutEngineOption())
	vAssert("C21/store-selection-does-not-fail", err == nil)
	got := map[string]int{}
	for _, nd := range nodes {
		vAssert("C21/store-no-nil-node", nd != nil)
		if nd != nil {
			got[nd.Name]++
		}
	}
	vObserve("selected", len(nodes))
	for i, name := range names {
		s := specs[i]
		carries := vAnd(vOr(fzone == 0, s.zone == fzone), vOr(frack == 0, s.rack == 1))
		// a test node needs no health check (doGetNodes reports it available unless it is
		// bypassed); any other node is available iff its status key is live
		available := vOr(vAnd(s.test, vNot(s.bypass)), vAnd(vNot(s.test), s.status == 1))
		up := vAnd(available, vNot(s.bypass))
		want := vAnd(carries, vOr(all, up))
		if want {
			vCover("a-node-is-selected", true)
			vAssert("C21/store-selects-labelled-up-node-exactly-once", got[name] == 1)
		} else {
			vCover("a-node-is-skipped", true)
			vAssert("C21/store-skips-down-bypassed-or-unlabelled-node", got[name] == 0)
		}
		if got[name] == 1 {
			for _, nd := range nodes {
				if nd != nil && nd.Name == name {
					vAssert("C21/store-availability-reported-truthfully", nd.Available == available)
					vAssert("C21/store-node-record-intact", nd.Podname == "p" && nd.Bypass == s.bypass && nd.Endpoint == "mock://"+name)
				}
			}
		}
	}
	vAssert("C21/store-nothing-outside-the-pod", len(got) <= n)
}

// VerifRemovePod (C22, store half, etcd backend): a pod that still has nodes -
// whatever their state: down, bypassed, unreachable - is never removed; an empty
// pod is.  The real Mercury.RemovePod (GetNodesByPod with all nodes requested,
// doGetNodes, makeClient, the delete) runs over the model meta.KV.
func VerifRemovePod(arg string) {
	n := vParam(arg, "n", 2)
	names := []string{"na", "nb", "nc"}[:n]
	kv := &vKV{pod: "p", status: map[string]int{}, reads: map[string]int{}, podKeys: map[string]bool{}}
	podExists := vBool("pod_record_exists")
	podKey := fmt.Sprintf(podInfoKey, "p")
	if podExists {
		kv.podKeys[podKey] = true
	}
	recorded := 0
	for i, name := range names {
		if !vBool(fmt.Sprintf("node%d_recorded", i)) {
			continue
		}
		recorded++
		node := &types.Node{NodeMeta: types.NodeMeta{Name: name, Podname: "p", Endpoint: "mock://" + name}, Bypass: vBool(fmt.Sprintf("node%d_bypass", i)), Test: vBool(fmt.Sprintf("node%d_test", i))}
		b, err := json.Marshal(node)
		vAssume(err == nil)
		kv.records = append(kv.records, &mvccpb.KeyValue{Key: []byte(fmt.Sprintf(nodePodKey, "p", name)), Value: b})
		kv.status[name] = vChoose(fmt.Sprintf("node%d_status_key", i), 3)
	}
	pool, _ := utils.NewPool(8)
	m := &Mercury{KV: kv, pool: pool}
	if vNativeRun {
		enginefactory.InitEngineCache(context.Background(), m.config, nil)
	}
	err := m.RemovePod(context.Background(), "p")
	vObserve("refused", err != nil)
	if recorded > 0 {
		vCover("pod-with-nodes", true)
		vAssert("C22/pod-that-still-has-nodes-is-not-removed", err != nil && kv.podKeys[podKey] == podExists)
	} else if podExists {
		vCover("empty-pod-removed", true)
		vAssert("C22/empty-pod-is-removed", err == nil && !kv.podKeys[podKey])
	} else {
		vAssert("C22/missing-pod-is-reported", err != nil)
	}
}

func init() {
	vRegisterP("VerifGetNodes", VerifGetNodes)
	vRegisterP("VerifRemovePod", VerifRemovePod)
}
