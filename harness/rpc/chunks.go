package rpc

// C29 (chunking half): a file of any size is cut into consecutive non-empty
// chunks of at most the chunk size that together cover the whole content, each
// carrying the total size, the targets, owner and mode.

import (
	"github.com/projecteru2/core/types"
)

// VerifChunks. arg: chunks=<content length up to chunks*chunkSize + chunks>
func VerifChunks(arg string) {
	k := vParam(arg, "chunks", 3)
	content := vBytes("content", k*types.SendLargeFileChunkSize+k)
	file := types.LinuxFile{Content: content, Filename: "/data/file", UID: vInt("uid", 0, 65535), GID: vInt("gid", 0, 65535), Mode: vInt64("mode", 0, 0o7777)}
	ids := []string{"w1", "w2"}

	chunks := toSendLargeFileChunks(file, ids)

	total := len(content)
	vObserve("chunks", len(chunks))
	vCover("multi-chunk", len(chunks) >= 2)
	vCover("exact-multiple", vAnd(total > 0, total%types.SendLargeFileChunkSize == 0))
	vCover("empty-file", len(chunks) == 0)
	next := 0
	for _, c := range chunks {
		n := len(c.Chunk)
		vAssert("C29/chunks-are-consecutive", vSliceOffset(content, c.Chunk) == next)
		vAssert("C29/chunk-non-empty-and-within-size", vAnd(n > 0, n <= types.SendLargeFileChunkSize))
		vAssert("C29/every-chunk-carries-total-size", c.Size == int64(total))
		vAssert("C29/owner-and-mode-copied", vAnd(vAnd(c.UID == file.UID, c.GID == file.GID), c.Mode == file.Mode))
		vAssert("C29/targets-and-destination-copied", c.Dst == file.Filename && len(c.IDs) == 2 && c.IDs[0] == "w1" && c.IDs[1] == "w2")
		next += n
	}
	vAssert("C29/chunks-cover-the-whole-content", next == total)
	vAssert("C29/no-chunk-only-for-empty-content", (len(chunks) == 0) == (vConcrete(vIte(total == 0, 1, 0)) == 1))
}

func init() { vRegisterP("VerifChunks", VerifChunks) }
