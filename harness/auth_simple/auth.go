package simple

// C35: with authentication configured a call is served if and only if the
// caller presents the configured username with the configured password; a
// client configured like the server is always accepted.  Usernames and
// passwords are strings of SYMBOLIC bytes; the client credential object, the
// metadata package and both server interceptors are the real code.  The gRPC
// HTTP/2 transport between them is a stub with its documented behaviour:
// per-RPC credential keys are sent in lower case (header names are
// case-insensitive, capital names are illegal in HTTP/2), values unchanged.

import (
	"context"
	"io"
	"net"
	"strings"
	"time"

	"google.golang.org/grpc"
	"google.golang.org/grpc/credentials/insecure"
	"google.golang.org/grpc/health"
	healthpb "google.golang.org/grpc/health/grpc_health_v1"
	"google.golang.org/grpc/metadata"
	"google.golang.org/grpc/test/bufconn"
)

// vRealCalls (native replay only): one unary and one streaming call over a REAL
// in-process gRPC connection - server with the real interceptors installed as
// core.go does, client with the real per-RPC credential - so every replayed
// path also checks the transport stub against grpc-go itself.
func vRealCalls(srvUser, srvPass, cliUser, cliPass string) (unaryServed, streamServed bool) {
	lis := bufconn.Listen(1 << 16)
	auth := NewBasicAuth(srvUser, srvPass)
	srv := grpc.NewServer(grpc.StreamInterceptor(auth.StreamInterceptor), grpc.UnaryInterceptor(auth.UnaryInterceptor))
	hs := health.NewServer()
	healthpb.RegisterHealthServer(srv, hs)
	go func() { _ = srv.Serve(lis) }()
	defer srv.Stop()
	ctx, cancel := context.WithTimeout(context.Background(), 10*time.Second)
	defer cancel()
	conn, err := grpc.DialContext(ctx, "bufnet",
		grpc.WithContextDialer(func(ctx context.Context, _ string) (net.Conn, error) { return lis.DialContext(ctx) }),
		grpc.WithTransportCredentials(insecure.NewCredentials()),
		grpc.WithPerRPCCredentials(NewBasicCredential(cliUser, cliPass)))
	if err != nil {
		panic(err)
	}
	defer conn.Close()
	cli := healthpb.NewHealthClient(conn)
	_, uerr := cli.Check(ctx, &healthpb.HealthCheckRequest{})
	unaryServed = uerr == nil
	if st, err := cli.Watch(ctx, &healthpb.HealthCheckRequest{}); err == nil {
		_, rerr := st.Recv()
		streamServed = rerr == nil
		_ = io.EOF
	}
	return
}

type vServerStream struct {
	grpc.ServerStream
	ctx context.Context
}

func (s *vServerStream) Context() context.Context { return s.ctx }

// vValidUser: a metadata key: digits, letters, '-', '_', '.'; not a name the transport reserves.
func vValidUser(u string) {
	if u == "" {
		vAssume(false)
	}
	for i := 0; i < len(u); i++ {
		c := u[i]
		vAssume(vOr(vOr(vAnd(c >= '0', c <= '9'), vOr(vAnd(c >= 'a', c <= 'z'), vAnd(c >= 'A', c <= 'Z'))), vOr(c == '-', vOr(c == '_', c == '.'))))
	}
	if len(u) == 2 {
		vAssume(vNot(vAnd(vOr(u[0] == 't', u[0] == 'T'), vOr(u[1] == 'e', u[1] == 'E')))) // "te" is a reserved header
	}
}

// vValidPass: printable ASCII including blanks (may be empty) - what gRPC accepts as a metadata value.
func vValidPass(p string) {
	for i := 0; i < len(p); i++ {
		vAssume(vAnd(p[i] >= ' ', p[i] <= '~'))
	}
}

// vSameKey: equality of two metadata keys (header names are case-insensitive).
func vSameKey(a, b string) bool {
	if len(a) != len(b) {
		return false
	}
	eq := true
	for i := 0; i < len(a); i++ {
		ca, cb := int(a[i]), int(b[i])
		la := vIte(vAnd(ca >= 'A', ca <= 'Z'), ca+32, ca)
		lb := vIte(vAnd(cb >= 'A', cb <= 'Z'), cb+32, cb)
		eq = vAnd(eq, la == lb)
	}
	return eq
}

// vTransport: what the server side sees of the client's per-RPC credentials.
func vTransport(md map[string]string) context.Context {
	in := metadata.MD{}
	for k, v := range md {
		lk := strings.ToLower(k) // http2_client.getCallAuthData: "Capital header names are illegal in HTTP/2"
		in[lk] = append(in[lk], v)
	}
	in[":authority"] = []string{"core"}
	in["content-type"] = []string{"application/grpc"}
	in["user-agent"] = []string{"grpc-go"}
	return metadata.NewIncomingContext(context.Background(), in)
}

// VerifAuth. arg: u=<server username length>,p=<server password length>,
// cu=,cp= client lengths (default: the server's), same=1: the client is configured with the server's credentials
func VerifAuth(arg string) {
	lu := vParam(arg, "u", 2)
	lp := vParam(arg, "p", 1)
	same := vParam(arg, "same", 0) == 1
	srvUser := vStr("server_user", lu)
	srvPass := vStr("server_pass", lp)
	vValidUser(srvUser)
	vValidPass(srvPass)
	cliUser, cliPass := srvUser, srvPass
	if !same {
		cliUser = vStr("client_user", vParam(arg, "cu", lu))
		cliPass = vStr("client_pass", vParam(arg, "cp", lp))
		vValidUser(cliUser)
		vValidPass(cliPass)
	}

	cred := NewBasicCredential(cliUser, cliPass)
	md, err := cred.GetRequestMetadata(context.Background())
	vAssert("C35/client-credentials-are-produced", err == nil)
	ctx := vTransport(md)

	auth := NewBasicAuth(srvUser, srvPass)
	unaryServed := false
	_, uerr := auth.UnaryInterceptor(ctx, nil, nil, func(context.Context, any) (any, error) {
		unaryServed = true
		return nil, nil
	})
	streamServed := false
	serr := auth.StreamInterceptor(nil, &vServerStream{ctx: ctx}, nil, func(any, grpc.ServerStream) error {
		streamServed = true
		return nil
	})

	if !vIsSymbolic() {
		ru, rs := vRealCalls(srvUser, srvPass, cliUser, cliPass)
		vAssert("C35/stub-agrees-with-real-grpc-connection", ru == unaryServed && rs == streamServed)
	}
	match := vAnd(vSameKey(cliUser, srvUser), cliPass == srvPass)
	vCover("matching-credentials", match)
	vCover("mismatching-credentials", !match)
	vCover("mixed-case-username", srvUser != strings.ToLower(srvUser))
	vAssert("C35/unary-call-served-iff-credentials-match", unaryServed == match)
	vAssert("C35/stream-call-served-iff-credentials-match", streamServed == match)
	vAssert("C35/unary-call-refused-with-an-error", unaryServed == (uerr == nil))
	vAssert("C35/stream-call-refused-with-an-error", streamServed == (serr == nil))
	if same {
		vAssert("C35/client-configured-like-the-server-is-accepted", unaryServed && streamServed)
	}
}

func init() { vRegisterP("VerifAuth", VerifAuth) }
