package meta

// C25 (etcd backend): a status reported with a positive TTL is accepted only
// for an existing entity and stays visible until the TTL has elapsed since the
// latest report or the entity is removed; reporting the same status again
// extends its lifetime; a status with TTL zero never expires on its own.
//
// The real ETCD.BindStatus / bindStatusWithTTL / bindStatusWithoutTTL /
// isTTLChanged / GetOne / BatchDelete run against the model etcd over a SYMBOLIC
// sequence of events on a virtual clock; a plain reference model (value, expiry
// instant) says what must be visible after every event.

import (
	"context"
)

const (
	vEntityKey = "/workloads/w1"
	vStatusKey = "/wlstatus/app/entry/n1/w1"
)

// VerifBindStatus. arg: steps=<events>,fault=<1: one lease call may fail>
func VerifBindStatus(arg string) {
	steps := vParam(arg, "steps", 3)
	withFault := vParam(arg, "fault", 0) == 1
	m := newEtcd()
	e := &ETCD{cliv3: m}
	ctx := context.Background()
	entity := vBool("entity_exists_initially")
	if entity {
		_ = m.put(vEntityKey, "{}", 0)
	}
	if withFault {
		m.leaseFailAt = vChoose("failing_lease_call", 9) // 0: none
	}
	// reference model
	has, val, expiry := false, "", int64(-1) // expiry < 0: never
	vals := []string{"running", "stopped"}
	for step := 0; step < steps; step++ {
		tag := string(rune('1' + step))
		switch vChoose("event_"+tag, 5) {
		case 0: // a status report
			v := vals[vChoose("value_"+tag, len(vals))]
			ttl := int64(0) // TTL zero, or any positive TTL (symbolic; equal to an earlier one or not is the solver's case split)
			if vBool("with_ttl_" + tag) {
				ttl = vInt64("ttl_"+tag, 1, 3600)
			}
			callsBefore := m.leaseCalls
			leasesBefore := len(m.leases)
			boundBefore := int64(0)
			if kv, ok := m.kv[vStatusKey]; ok {
				boundBefore = kv.lease
			}
			err := e.BindStatus(ctx, vEntityKey, vStatusKey, v, ttl)
			faulted := m.leaseFailAt > callsBefore && m.leaseFailAt <= m.leaseCalls
			vObserve("report_"+tag+"_failed", err != nil)
			switch {
			case faulted:
				// an etcd failure during the report: it must be reported (or harmless);
				// what is visible afterwards is either the old or the new status
				vCover("report-hit-by-an-etcd-failure", true)
				kv, gerr := e.GetOne(ctx, vStatusKey)
				if gerr == nil && string(kv.Value) == v && err == nil {
					has, val = true, v
					if ttl > 0 {
						expiry = m.now + ttl
					} else {
						expiry = -1
					}
				} else if gerr != nil {
					has = false
				} else {
					// keep the reference model in step with what is stored (value and lease)
					has, val = true, string(kv.Value)
					if kv.Lease == 0 {
						expiry = -1
					} else if l, ok := m.leases[kv.Lease]; ok {
						expiry = l.expires
					}
				}
				continue
			case ttl > 0 && !entity:
				vCover("report-for-a-missing-entity", true)
				vAssert("C25/report-for-a-missing-entity-is-refused", err != nil)
				// a refused report leaves no fresh lease behind
				vAssert("C25/refused-report-leaks-no-lease", len(m.leases) == leasesBefore)
			default:
				vAssert("C25/report-for-an-existing-entity-is-accepted", err == nil)
				if has && val == v {
					vCover("same-status-reported-again", true)
				}
				// the status is bound to exactly one live lease (or to none for TTL zero), and a
				// report adds at most the lease the status is now bound to
				kvNow := m.kv[vStatusKey]
				if ttl > 0 {
					_, live := m.leases[kvNow.lease]
					vAssert("C25/status-is-bound-to-a-live-lease", kvNow.lease != 0 && live)
					if kvNow.lease == boundBefore {
						vAssert("C25/renewing-report-leaks-no-lease", len(m.leases) == leasesBefore)
					} else {
						vAssert("C25/rebinding-report-adds-only-the-new-lease", len(m.leases) == leasesBefore+1)
					}
				} else {
					vAssert("C25/ttl-zero-detaches-the-status", kvNow.lease == 0)
					vAssert("C25/ttl-zero-report-leaks-no-lease", len(m.leases) == leasesBefore)
				}
				has, val = true, v
				if ttl > 0 {
					expiry = m.now + ttl
				} else {
					expiry = -1
				}
			}
		case 1: // time passes
			m.advance(vInt64("elapsed_"+tag, 1, 7200))
			if has && expiry >= 0 && expiry <= m.now {
				has = false
				vCover("status-expired", true)
			}
		case 2: // the entity is removed (the store deletes its status with it)
			if !entity {
				continue
			}
			_, err := e.BatchDelete(ctx, []string{vStatusKey, vEntityKey})
			vAssert("C25/entity-removal-succeeds", err == nil)
			entity, has = false, false
		case 4: // only the entity record is removed (node removal: the status key is deleted by a later, separate step)
			if !entity {
				continue
			}
			_, err := e.BatchDelete(ctx, []string{vEntityKey})
			vAssert("C25/entity-removal-succeeds", err == nil)
			entity = false
			vCover("entity-removed-while-its-status-is-alive", has)
		case 3: // the entity is (re)created
			if entity {
				continue
			}
			_ = m.put(vEntityKey, "{}", 0)
			entity = true
		}
		kv, err := e.GetOne(ctx, vStatusKey)
		visible := err == nil
		vAssert("C25/status-visible-exactly-while-alive", visible == has)
		if visible && has {
			vAssert("C25/visible-status-is-the-latest-report", string(kv.Value) == val)
		}
	}
}

func init() { vRegisterP("VerifBindStatus", VerifBindStatus) }
