package meta

// A model etcd: keys with versions and leases, leases with a granted TTL and an
// expiry instant on a VIRTUAL clock, and transactions evaluated like the
// server does (all comparisons against the pre-state, then the chosen branch;
// nested transactions recursively).  The requests are built by the REAL
// clientv3 code (Compare, OpPut, OpTxn, WithLease ...), which runs from its SSA;
// the model only interprets the resulting Cmp / Op values.

import (
	"context"
	"errors"
	"sort"

	pb "go.etcd.io/etcd/api/v3/etcdserverpb"
	"go.etcd.io/etcd/api/v3/mvccpb"
	clientv3 "go.etcd.io/etcd/client/v3"
)

type mKey struct {
	val     string
	lease   int64
	version int64
	create  int64
	mod     int64
}

type mLease struct {
	granted int64
	expires int64
}

type mEtcd struct {
	clientv3.KV
	clientv3.Lease
	clientv3.Watcher
	kv     map[string]*mKey
	leases map[int64]*mLease
	next   int64
	now    int64
	rev    int64
	// fault injection: the n-th lease call fails (0: none)
	leaseCalls, leaseFailAt int
}

var errLeaseNotFound = errors.New("etcdserver: requested lease not found")
var errInjectedEtcd = errors.New("injected etcd failure")

func newEtcd() *mEtcd {
	return &mEtcd{kv: map[string]*mKey{}, leases: map[int64]*mLease{}, next: 100, rev: 1}
}

// advance moves the virtual clock; expired leases go away with the keys attached to them.
func (m *mEtcd) advance(d int64) {
	m.now += d
	var ids []int64
	for id, l := range m.leases {
		if l.expires <= m.now {
			ids = append(ids, id)
		}
	}
	sort.Slice(ids, func(a, b int) bool { return ids[a] < ids[b] })
	for _, id := range ids {
		m.dropLease(id)
	}
}

func (m *mEtcd) dropLease(id int64) {
	delete(m.leases, id)
	for k, e := range m.kv {
		if e.lease == id {
			delete(m.kv, k)
		}
	}
}

func (m *mEtcd) put(key, val string, lease int64) error {
	if lease != 0 {
		if _, ok := m.leases[lease]; !ok {
			return errLeaseNotFound
		}
	}
	m.rev++
	e, ok := m.kv[key]
	if !ok {
		e = &mKey{create: m.rev}
		m.kv[key] = e
	}
	e.val, e.lease, e.mod = val, lease, m.rev
	e.version++
	return nil
}

func (m *mEtcd) rangeKeys(key, end string) []string {
	var out []string
	if end == "" {
		if _, ok := m.kv[key]; ok {
			out = append(out, key)
		}
		return out
	}
	for k := range m.kv {
		if k >= key && (end == "\x00" || k < end) {
			out = append(out, k)
		}
	}
	sort.Strings(out)
	return out
}

func (m *mEtcd) rangeResp(key, end string) *pb.RangeResponse {
	r := &pb.RangeResponse{}
	for _, k := range m.rangeKeys(key, end) {
		e := m.kv[k]
		r.Kvs = append(r.Kvs, &mvccpb.KeyValue{Key: []byte(k), Value: []byte(e.val), Lease: e.lease, Version: e.version, CreateRevision: e.create, ModRevision: e.mod})
	}
	r.Count = int64(len(r.Kvs))
	return r
}

func (m *mEtcd) Get(_ context.Context, key string, opts ...clientv3.OpOption) (*clientv3.GetResponse, error) {
	op := clientv3.OpGet(key, opts...)
	return (*clientv3.GetResponse)(m.rangeResp(string(op.KeyBytes()), string(op.RangeBytes()))), nil
}

func (m *mEtcd) Put(_ context.Context, key, val string, opts ...clientv3.OpOption) (*clientv3.PutResponse, error) {
	op := clientv3.OpPut(key, val, opts...)
	if err := m.put(key, val, vFieldInt(op, "leaseID")); err != nil {
		return nil, err
	}
	return &clientv3.PutResponse{}, nil
}

func (m *mEtcd) Delete(_ context.Context, key string, opts ...clientv3.OpOption) (*clientv3.DeleteResponse, error) {
	op := clientv3.OpDelete(key, opts...)
	n := m.del(string(op.KeyBytes()), string(op.RangeBytes()))
	return &clientv3.DeleteResponse{Deleted: n}, nil
}

func (m *mEtcd) del(key, end string) int64 {
	ks := m.rangeKeys(key, end)
	if len(ks) > 0 {
		m.rev++
	}
	for _, k := range ks {
		delete(m.kv, k)
	}
	return int64(len(ks))
}

// ---- transactions ----

type mTxn struct {
	m           *mEtcd
	cmps        []clientv3.Cmp
	then, else_ []clientv3.Op
}

func (m *mEtcd) Txn(context.Context) clientv3.Txn { return &mTxn{m: m} }

func (t *mTxn) If(cs ...clientv3.Cmp) clientv3.Txn   { t.cmps = append(t.cmps, cs...); return t }
func (t *mTxn) Then(ops ...clientv3.Op) clientv3.Txn { t.then = append(t.then, ops...); return t }
func (t *mTxn) Else(ops ...clientv3.Op) clientv3.Txn { t.else_ = append(t.else_, ops...); return t }
func (t *mTxn) Commit() (*clientv3.TxnResponse, error) {
	// like the server: the lease of every put must exist, checked before anything is applied
	if err := t.m.checkLeases(t.cmps, t.then, t.else_); err != nil {
		return nil, err
	}
	return (*clientv3.TxnResponse)(t.m.apply(t.cmps, t.then, t.else_)), nil
}

func (m *mEtcd) checkLeases(cmps []clientv3.Cmp, then, else_ []clientv3.Op) error {
	ops := else_
	if m.holds(cmps) {
		ops = then
	}
	for _, op := range ops {
		switch {
		case op.IsTxn():
			c, t, e := op.Txn()
			if err := m.checkLeases(c, t, e); err != nil {
				return err
			}
		case op.IsPut():
			if l := vFieldInt(op, "leaseID"); l != 0 {
				if _, ok := m.leases[l]; !ok {
					return errLeaseNotFound
				}
			}
		}
	}
	return nil
}

func (m *mEtcd) holds(cmps []clientv3.Cmp) bool {
	for _, c := range cmps {
		if !m.cmp(c) {
			return false
		}
	}
	return true
}

func (m *mEtcd) cmp(c clientv3.Cmp) bool {
	e, ok := m.kv[string(c.Key)]
	if !ok {
		if c.Target == pb.Compare_VALUE {
			return false // comparing the value of a missing key always fails
		}
		e = &mKey{}
	}
	var d int // sign of (actual - wanted)
	sgn := func(a, b int64) int {
		switch {
		case a < b:
			return -1
		case a > b:
			return 1
		}
		return 0
	}
	switch c.Target {
	case pb.Compare_VERSION:
		d = sgn(e.version, c.TargetUnion.(*pb.Compare_Version).Version)
	case pb.Compare_CREATE:
		d = sgn(e.create, c.TargetUnion.(*pb.Compare_CreateRevision).CreateRevision)
	case pb.Compare_MOD:
		d = sgn(e.mod, c.TargetUnion.(*pb.Compare_ModRevision).ModRevision)
	case pb.Compare_LEASE:
		d = sgn(e.lease, c.TargetUnion.(*pb.Compare_Lease).Lease)
	case pb.Compare_VALUE:
		w := string(c.TargetUnion.(*pb.Compare_Value).Value)
		switch {
		case e.val < w:
			d = -1
		case e.val > w:
			d = 1
		}
	}
	switch c.Result {
	case pb.Compare_EQUAL:
		return d == 0
	case pb.Compare_NOT_EQUAL:
		return d != 0
	case pb.Compare_GREATER:
		return d > 0
	case pb.Compare_LESS:
		return d < 0
	}
	return false
}

func (m *mEtcd) apply(cmps []clientv3.Cmp, then, else_ []clientv3.Op) *pb.TxnResponse {
	resp := &pb.TxnResponse{Succeeded: m.holds(cmps)}
	ops := else_
	if resp.Succeeded {
		ops = then
	}
	for _, op := range ops {
		switch {
		case op.IsTxn():
			c, t, e := op.Txn()
			resp.Responses = append(resp.Responses, &pb.ResponseOp{Response: &pb.ResponseOp_ResponseTxn{ResponseTxn: m.apply(c, t, e)}})
		case op.IsPut():
			_ = m.put(string(op.KeyBytes()), string(op.ValueBytes()), vFieldInt(op, "leaseID"))
			resp.Responses = append(resp.Responses, &pb.ResponseOp{Response: &pb.ResponseOp_ResponsePut{ResponsePut: &pb.PutResponse{}}})
		case op.IsGet():
			resp.Responses = append(resp.Responses, &pb.ResponseOp{Response: &pb.ResponseOp_ResponseRange{ResponseRange: m.rangeResp(string(op.KeyBytes()), string(op.RangeBytes()))}})
		case op.IsDelete():
			n := m.del(string(op.KeyBytes()), string(op.RangeBytes()))
			resp.Responses = append(resp.Responses, &pb.ResponseOp{Response: &pb.ResponseOp_ResponseDeleteRange{ResponseDeleteRange: &pb.DeleteRangeResponse{Deleted: n}}})
		}
	}
	return resp
}

// ---- leases ----

func (m *mEtcd) leaseFault() bool {
	m.leaseCalls++
	return m.leaseCalls == m.leaseFailAt
}

func (m *mEtcd) Grant(_ context.Context, ttl int64) (*clientv3.LeaseGrantResponse, error) {
	if m.leaseFault() {
		return nil, errInjectedEtcd
	}
	m.next++
	m.leases[m.next] = &mLease{granted: ttl, expires: m.now + ttl}
	return &clientv3.LeaseGrantResponse{ID: clientv3.LeaseID(m.next), TTL: ttl}, nil
}

func (m *mEtcd) Revoke(_ context.Context, id clientv3.LeaseID) (*clientv3.LeaseRevokeResponse, error) {
	if m.leaseFault() {
		return nil, errInjectedEtcd
	}
	if _, ok := m.leases[int64(id)]; !ok {
		return nil, errLeaseNotFound
	}
	m.dropLease(int64(id))
	return &clientv3.LeaseRevokeResponse{}, nil
}

func (m *mEtcd) TimeToLive(_ context.Context, id clientv3.LeaseID, _ ...clientv3.LeaseOption) (*clientv3.LeaseTimeToLiveResponse, error) {
	if m.leaseFault() {
		return nil, errInjectedEtcd
	}
	l, ok := m.leases[int64(id)]
	if !ok {
		return &clientv3.LeaseTimeToLiveResponse{ID: id, TTL: -1}, nil
	}
	return &clientv3.LeaseTimeToLiveResponse{ID: id, TTL: l.expires - m.now, GrantedTTL: l.granted}, nil
}

func (m *mEtcd) KeepAliveOnce(_ context.Context, id clientv3.LeaseID) (*clientv3.LeaseKeepAliveResponse, error) {
	if m.leaseFault() {
		return nil, errInjectedEtcd
	}
	l, ok := m.leases[int64(id)]
	if !ok {
		return nil, errLeaseNotFound
	}
	l.expires = m.now + l.granted
	return &clientv3.LeaseKeepAliveResponse{ID: id, TTL: l.granted}, nil
}

func (m *mEtcd) Close() error { return nil }
