package meta

// C26 (etcd backend): ephemeral registrations on one key are exclusive and
// owner-safe.  Two registrants use the real ETCD.StartEphemeral (lease grant,
// create-if-absent transaction, keepalive goroutine, revoke on exit) over the
// model etcd under gosym's scheduler; registrations, heartbeat ticks, pauses of
// symbolic length on the virtual clock and deregistrations form a SYMBOLIC
// sequence of events.

import (
	"context"
	"time"

	"github.com/projecteru2/core/types"
)

//verif:zerofn (*time.Ticker).Stop

var vTickers []chan time.Time

// vNewTicker: every keepalive loop gets a ticker channel the harness feeds.
//
//verif:stub time.NewTicker
func vNewTicker(time.Duration) *time.Ticker {
	ch := make(chan time.Time, 1)
	vTickers = append(vTickers, ch)
	return &time.Ticker{C: ch}
}

type vRegistrant struct {
	active     bool // StartEphemeral succeeded and neither lapsed nor deregistered since
	expiry     <-chan struct{}
	unregister func()
	tick       chan time.Time
	lease      int64
	ticked     bool  // had a heartbeat since the clock last moved
	idle       int64 // virtual seconds since its registration / last heartbeat
}

func (r *vRegistrant) lapsed() bool {
	select {
	case <-r.expiry:
		return true
	default:
		return false
	}
}

// VerifEphemeral. arg: steps=<events>
func VerifEphemeral(arg string) {
	steps := vParam(arg, "steps", 4)
	vNoSample() // natively the heartbeat is the real three-second ticker: completed paths are not compared
	m := newEtcd()
	e := &ETCD{cliv3: m}
	ctx := context.Background()
	const key = "/selfmon/active"
	heartbeat := 9 * time.Second
	vTickers = nil
	regs := []*vRegistrant{{}, {}}
	for step := 0; step < steps; step++ {
		tag := string(rune('1' + step))
		who := regs[vChoose("registrant_"+tag, 2)]
		ev := vChoose("event_"+tag, 4)
		switch ev {
		case 0: // register
			if who.active {
				continue
			}
			n := len(vTickers)
			expiry, unregister, err := e.StartEphemeral(ctx, key, heartbeat)
			_, taken := m.kv[key]
			if err != nil {
				vCover("registration-refused", true)
				vAssert("C26/registration-refused-only-while-the-key-is-held", taken)
				vAssert("C26/refusal-says-key-exists", ErrIsKeyExists(err))
				continue
			}
			vCover("registered", true)
			vDrain() // let the keepalive goroutine start (it creates its ticker)
			who.active, who.expiry, who.unregister = true, expiry, unregister
			if vIsSymbolic() {
				who.tick = vTickers[n]
			}
			who.lease = m.kv[key].lease
			who.ticked = true
			who.idle = 0
		case 1: // the registrant's heartbeat fires
			if !who.active {
				continue
			}
			if vIsSymbolic() {
				select {
				case who.tick <- time.Time{}:
				default:
				}
			} else {
				time.Sleep(3100 * time.Millisecond) // natively: wait for the real ticker (heartbeat / 3)
			}
			who.ticked = true
		case 2: // time passes (possibly longer than the TTL: a paused process)
			d := vInt64("elapsed_"+tag, 1, 30)
			m.advance(d)
			for _, r := range regs {
				r.ticked = false
				r.idle += d
			}
		case 3: // deregister
			if !who.active {
				continue
			}
			who.unregister()
			who.active = false
			vCover("deregistered", true)
		}
		vDrain()
		// who believes to hold the key?
		believers := 0
		for _, r := range regs {
			if r.active && r.lapsed() {
				r.active = false // notified: its expiry channel is closed
				vCover("lapse-notified", true)
				// a registration only lapses after a pause of at least the heartbeat (= the lease TTL)
				vAssert("C26/no-lapse-without-a-pause-of-a-full-heartbeat", r.idle >= int64(heartbeat/time.Second))
			}
			if r.active && r.ticked && ev == 1 && r == who {
				r.idle = 0 // its heartbeat went through
			}
			if r.active && r.ticked {
				believers++
				// a registrant that has had its heartbeat and still believes really owns the key
				kv, ok := m.kv[key]
				vAssert("C26/believer-after-heartbeat-owns-the-key", ok && kv.lease == r.lease)
			}
		}
		vAssert("C26/at-most-one-registrant-holds-the-key", believers <= 1)
		// owner safety: the key, when present, belongs to the lease of the registrant that created it
		if kv, ok := m.kv[key]; ok {
			owned := false
			for _, r := range regs {
				if r.lease == kv.lease {
					owned = true
				}
			}
			vAssert("C26/key-belongs-to-its-creator", owned)
			_, live := m.leases[kv.lease]
			vAssert("C26/key-has-a-live-lease", live)
		}
	}
}

// ErrIsKeyExists: the refusal wraps types.ErrKeyExists.
func ErrIsKeyExists(err error) bool {
	for err != nil {
		if err == types.ErrKeyExists {
			return true
		}
		u, ok := err.(interface{ Unwrap() error })
		if !ok {
			return false
		}
		err = u.Unwrap()
	}
	return false
}

func init() { vRegisterP("VerifEphemeral", VerifEphemeral) }
