package meta

// C13 (etcd backend's half): a workload is recorded and its deployment's
// in-progress marker is decremented in ONE atomic step.  The real
// ETCD.BatchCreateAndDecr (read, compare-and-swap transaction through doBatchOp
// with its goroutines, retry loop) runs against the model etcd from a symbolic
// pre-state, with another client optionally changing the marker between this
// call's read and its transaction.

import (
	"context"
	"strconv"

	clientv3 "go.etcd.io/etcd/client/v3"
)

// vRaceTxn wraps the model's transactions: just before the n-th commit another
// client decrements the marker (a concurrent deployment step on another core).
type vRaceEtcd struct {
	*mEtcd
	commits, raceAt int
	key             string
	raced           bool
}

type vRaceTxnT struct {
	clientv3.Txn
	r *vRaceEtcd
}

func (r *vRaceEtcd) Txn(ctx context.Context) clientv3.Txn {
	return &vRaceTxnT{Txn: r.mEtcd.Txn(ctx), r: r}
}
func (t *vRaceTxnT) If(cs ...clientv3.Cmp) clientv3.Txn   { t.Txn = t.Txn.If(cs...); return t }
func (t *vRaceTxnT) Then(ops ...clientv3.Op) clientv3.Txn { t.Txn = t.Txn.Then(ops...); return t }
func (t *vRaceTxnT) Else(ops ...clientv3.Op) clientv3.Txn { t.Txn = t.Txn.Else(ops...); return t }
func (t *vRaceTxnT) Commit() (*clientv3.TxnResponse, error) {
	t.r.commits++
	if t.r.commits == t.r.raceAt {
		if e, ok := t.r.kv[t.r.key]; ok {
			if n, err := strconv.Atoi(e.val); err == nil {
				_ = t.r.put(t.r.key, strconv.Itoa(n-1), 0)
				t.r.raced = true
			}
		}
	}
	return t.Txn.Commit()
}

// VerifBatchCreateAndDecr.
func VerifBatchCreateAndDecr(string) {
	m := newEtcd()
	r := &vRaceEtcd{mEtcd: m, key: "/processing/app/entry/n1/x"}
	e := &ETCD{cliv3: r}
	ctx := context.Background()
	const k1, k2 = "/workloads/w9", "/node/n1:workloads/w9"
	// pre-state: the marker is missing, not a number, or any count in [0,9]
	markerKind := vChoose("marker", 3)
	before := vInt("marker_count", 0, 9)
	switch markerKind {
	case 1:
		_ = m.put(r.key, "not-a-number", 0)
	case 2:
		_ = m.put(r.key, strconv.Itoa(vConcrete(before)), 0)
	}
	if vBool("workload_key_already_exists") {
		_ = m.put(k1, "old", 0)
	}
	r.raceAt = vChoose("another_client_decrements_before_commit", 3) // 0: never
	err := e.BatchCreateAndDecr(ctx, map[string]string{k1: "w9-meta", k2: "w9"}, r.key)
	vObserve("failed", err != nil)
	_, has1 := m.kv[k1]
	_, has2 := m.kv[k2]
	switch markerKind {
	case 0:
		vCover("marker-missing", true)
		vAssert("C13/missing-marker-is-refused", err != nil)
		vAssert("C13/refused-step-records-nothing", !has2)
	case 1:
		vAssert("C13/non-numeric-marker-is-refused", err != nil)
		vAssert("C13/refused-step-records-nothing", !has2 && m.kv[r.key].val == "not-a-number")
	case 2:
		vCover("marker-decremented", err == nil)
		vAssert("C13/step-succeeds", err == nil)
		vAssert("C13/workload-keys-written", has1 && has2 && m.kv[k1].val == "w9-meta" && m.kv[k2].val == "w9")
		want := vConcrete(before) - 1
		if r.raced {
			vCover("retried-after-a-concurrent-decrement", true)
			want--
		}
		got, perr := strconv.Atoi(m.kv[r.key].val)
		vAssert("C13/marker-decremented-by-exactly-one", perr == nil && got == want)
	}
}

func init() { vRegisterP("VerifBatchCreateAndDecr", VerifBatchCreateAndDecr) }
